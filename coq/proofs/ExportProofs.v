(* Lemmas for C20: counting / ordering / parse-back of the exported lines, the path rule, the closed
   polyline with swap_axis, scatter data, and the reader's parse . render = id.  The engines
   (printf "%1.6f", pandas' leaf parsers) appear only as Section variables with named contracts. *)
From Coq Require Import List Bool Ascii String Arith Lia Reals Lra.
From V.model Require Import Export.
Import ListNotations.

(* ------------------------------------------------------------------ split / join *)
Lemma eqb_neq_false c d : c <> d -> Ascii.eqb c d = false.
Proof. intros H. destruct (Ascii.eqb c d) eqn:E; [apply Ascii.eqb_eq in E; contradiction|reflexivity]. Qed.

(* a field without the delimiter, at the end of the text *)
Lemma split_acc_last d f : forall cur, ~ In d f -> split_acc d cur f = [rev cur ++ f].
Proof.
  induction f as [|c f IH]; intros cur H; cbn [split_acc]; [rewrite app_nil_r; reflexivity|].
  rewrite eqb_neq_false by (intro E; apply H; left; auto).
  rewrite IH by (intro E; apply H; right; exact E). cbn [rev]. rewrite <- app_assoc. reflexivity.
Qed.

(* a field without the delimiter, followed by the delimiter *)
Lemma split_acc_field d f rest : forall cur, ~ In d f ->
  split_acc d cur (f ++ d :: rest) = (rev cur ++ f) :: split_acc d [] rest.
Proof.
  induction f as [|c f IH]; intros cur H; cbn [split_acc app].
  - rewrite (proj2 (Ascii.eqb_eq d d) eq_refl). rewrite app_nil_r. reflexivity.
  - rewrite eqb_neq_false by (intro E; apply H; left; auto).
    rewrite IH by (intro E; apply H; right; exact E). cbn [rev]. rewrite <- app_assoc. reflexivity.
Qed.

Lemma join_cons2 sep a b tl : join sep (a :: b :: tl) = a ++ sep ++ join sep (b :: tl).
Proof. reflexivity. Qed.

(* separator = delimiter followed by padding that does not contain the delimiter *)
Lemma split_join_pad d pad : ~ In d pad -> forall tl b, Forall (fun f => ~ In d f) (b :: tl) ->
  split d (pad ++ join (d :: pad) (b :: tl)) = map (app pad) (b :: tl).
Proof.
  intros Hp. unfold split. induction tl as [|c tl IH]; intros b HF.
  - cbn [join map]. rewrite split_acc_last; [reflexivity|].
    intro E. apply in_app_or in E. destruct E as [E|E]; [exact (Hp E)|]. inversion HF; auto.
  - rewrite join_cons2. cbn [app]. rewrite app_assoc.
    rewrite split_acc_field.
    + cbn [rev app map]. f_equal. apply IH. inversion HF; assumption.
    + intro E. apply in_app_or in E. destruct E as [E|E]; [exact (Hp E)|]. inversion HF; auto.
Qed.

Lemma map_app_nil {A} (l : list (list A)) : map (app []) l = l.
Proof. induction l as [|a l IH]; [reflexivity|]. change (map (app []) (a :: l)) with (([] ++ a) :: map (app []) l). rewrite IH. reflexivity. Qed.

(* splitting what was joined with a one-byte delimiter gives the fields back, in order *)
Lemma split_join d fs : fs <> [] -> Forall (fun f => ~ In d f) fs -> split d (join [d] fs) = fs.
Proof.
  intros Hn HF. destruct fs as [|b tl]; [congruence|].
  pose proof (split_join_pad d [] (fun H => H) tl b HF) as E. cbn [app] in E. rewrite E. apply map_app_nil.
Qed.

Lemma join_length_fields d fs : fs <> [] -> Forall (fun f => ~ In d f) fs ->
  List.length (split d (join [d] fs)) = List.length fs.
Proof. intros. rewrite split_join by assumption. reflexivity. Qed.

(* ------------------------------------------------------------------ the saved file *)
Section SaveProofs.
  Variable V : Type.
  Variable fmt : V -> text.

  Lemma file_lines_length names units n coords :
    List.length (file_lines V fmt names units n coords) = S (List.length coords).
  Proof. unfold file_lines. cbn [List.length]. rewrite map_length. reflexivity. Qed.

  Lemma file_lines_header names units n coords : nth_error (file_lines V fmt names units n coords) 0 = Some (header names units n).
  Proof. reflexivity. Qed.

  (* line i+1 is the line of point i: one row per contour point, in order *)
  Lemma file_lines_row names units n coords i :
    nth_error (file_lines V fmt names units n coords) (S i) = option_map (row_line V fmt) (nth_error coords i).
  Proof. unfold file_lines. cbn [nth_error]. apply nth_error_map. Qed.

  (* the bytes of the file split at newlines are exactly the lines (plus the empty tail after the last newline) *)
  Lemma file_text_lines lines : Forall (fun l => ~ In newline l) lines ->
    split newline (file_text lines) = lines ++ [[]].
  Proof.
    unfold split. induction lines as [|l ls IH]; intros HF; [reflexivity|].
    unfold file_text. cbn [map List.concat]. rewrite <- app_assoc. cbn [app].
    rewrite split_acc_field by (inversion HF; assumption). cbn [rev app]. f_equal. apply IH. inversion HF; assumption.
  Qed.

  (* a row has one field per coordinate, the formatted coordinates in dimension order *)
  Lemma row_fields row : row <> [] -> (forall v, ~ In semi (fmt v)) ->
    split semi (row_line V fmt row) = map fmt row.
  Proof.
    intros Hn Hc. unfold row_line. apply split_join.
    - destruct row; [congruence|discriminate].
    - apply Forall_forall. intros f Hf. apply in_map_iff in Hf. destruct Hf as [v [<- _]]. apply Hc.
  Qed.

  (* the header has one label per dimension, "name (unit)", in dimension order *)
  Lemma header_fields names units n : (0 < n)%nat ->
    (forall d, (d < n)%nat -> ~ In semi (label (nth d names []) (nth d units []))) ->
    split semi (header names units n) = map (fun d => label (nth d names []) (nth d units [])) (seq 0 n).
  Proof.
    intros Hn Hc. unfold header. apply split_join.
    - destruct n; [lia|discriminate].
    - apply Forall_forall. intros f Hf. apply in_map_iff in Hf. destruct Hf as [d [<- Hd]]. apply Hc. apply in_seq in Hd. lia.
  Qed.
End SaveProofs.

(* parsed values equal the coordinates to the written 6 decimals, under the printf contract *)
Section SavedValues.
  Local Open Scope R_scope.
  Variable V : Type.
  Variable val : V -> R.              (* the real number a stored coordinate denotes *)
  Variable fmt : V -> text.           (* "%1.6f" % v *)
  Variable parse : text -> R.         (* reading a decimal numeral *)
  Hypothesis printf_6f_rounding : forall v, Rabs (parse (fmt v) - val v) <= 5 / 10000000.
  Hypothesis fmt_no_delimiter : forall v, ~ In semi (fmt v).

  Lemma saved_values row : row <> [] ->
    Forall2 (fun s v => Rabs (parse s - val v) <= 5 / 10000000) (split semi (row_line V fmt row)) row.
  Proof.
    intros Hn. rewrite row_fields by assumption. clear Hn.
    induction row as [|v row IH]; cbn [map]; constructor; auto.
  Qed.
End SavedValues.

(* ------------------------------------------------------------------ the path rule *)
Lemma out_path_ext p : has_ext p = true -> out_path p = p.
Proof. unfold out_path. intros ->. reflexivity. Qed.
Lemma out_path_noext p : has_ext p = false -> out_path p = p ++ T ".txt".
Proof. unfold out_path. intros ->. reflexivity. Qed.

Lemma last_component_acc_noslash p : forall cur, ~ In slash p -> last_component_acc cur p = rev cur ++ p.
Proof.
  induction p as [|c p IH]; intros cur H; cbn [last_component_acc]; [rewrite app_nil_r; reflexivity|].
  rewrite eqb_neq_false by (intro E; apply H; left; auto).
  rewrite IH by (intro E; apply H; right; exact E). cbn [rev]. rewrite <- app_assoc. reflexivity.
Qed.

Lemma last_component_acc_slash q name : forall cur, last_component_acc cur (q ++ slash :: name) = last_component_acc [] name.
Proof.
  induction q as [|c q IH]; intros cur; cbn [app last_component_acc].
  - rewrite (proj2 (Ascii.eqb_eq slash slash) eq_refl). reflexivity.
  - destruct (Ascii.eqb c slash); apply IH.
Qed.

(* the last component of directory-prefix ++ name is name *)
Lemma last_component_spec pre name : (pre = [] \/ exists q, pre = q ++ [slash]) -> ~ In slash name ->
  last_component (pre ++ name) = name.
Proof.
  intros [->|[q ->]] H; unfold last_component.
  - cbn [app]. rewrite last_component_acc_noslash by exact H. reflexivity.
  - rewrite <- app_assoc. cbn [app]. rewrite last_component_acc_slash. rewrite last_component_acc_noslash by exact H. reflexivity.
Qed.

Lemma stem_rev_nodot r : ~ In dot r -> stem_rev r = None.
Proof.
  induction r as [|c r IH]; intros H; [reflexivity|]. cbn [stem_rev].
  rewrite eqb_neq_false by (intro E; apply H; left; auto). apply IH. intro E. apply H. right. exact E.
Qed.
Lemma stem_rev_dot e st : ~ In dot e -> stem_rev (e ++ dot :: st) = Some st.
Proof.
  induction e as [|c e IH]; intros H; cbn [app stem_rev].
  - rewrite (proj2 (Ascii.eqb_eq dot dot) eq_refl). reflexivity.
  - rewrite eqb_neq_false by (intro E; apply H; left; auto). apply IH. intro E. apply H. right. exact E.
Qed.

(* name without a dot: no extension *)
Lemma has_ext_nodot pre name : (pre = [] \/ exists q, pre = q ++ [slash]) -> ~ In slash name -> ~ In dot name ->
  has_ext (pre ++ name) = false.
Proof.
  intros Hp Hs Hd. unfold has_ext. rewrite last_component_spec by assumption.
  rewrite stem_rev_nodot; [reflexivity|]. intro E. apply in_rev in E. exact (Hd E).
Qed.

(* name = stem.ext with a stem that is not made of dots only: extension present *)
Lemma has_ext_dot pre stem e : (pre = [] \/ exists q, pre = q ++ [slash]) ->
  ~ In slash stem -> ~ In slash e -> ~ In dot e -> (exists c, In c stem /\ c <> dot) ->
  has_ext (pre ++ stem ++ dot :: e) = true.
Proof.
  intros Hp Hs1 Hs2 Hd [c [Hc Hn]]. unfold has_ext. rewrite last_component_spec; [|exact Hp|].
  - rewrite rev_app_distr. cbn [rev]. rewrite <- app_assoc. cbn [app].
    rewrite stem_rev_dot by (intro E; apply in_rev in E; exact (Hd E)).
    apply existsb_exists. exists c. split; [apply in_rev in Hc; exact Hc|]. rewrite eqb_neq_false by exact Hn. reflexivity.
  - intro E. apply in_app_or in E. destruct E as [E|[E|E]]; [exact (Hs1 E)| |exact (Hs2 E)]. discriminate.
Qed.

(* a name made of dots only before the last dot (".hidden", "..") has no extension *)
Lemma has_ext_dots_only pre stem e : (pre = [] \/ exists q, pre = q ++ [slash]) ->
  ~ In slash stem -> ~ In slash e -> ~ In dot e -> (forall c, In c stem -> c = dot) ->
  has_ext (pre ++ stem ++ dot :: e) = false.
Proof.
  intros Hp Hs1 Hs2 Hd Hall. unfold has_ext. rewrite last_component_spec; [|exact Hp|].
  - rewrite rev_app_distr. cbn [rev]. rewrite <- app_assoc. cbn [app].
    rewrite stem_rev_dot by (intro E; apply in_rev in E; exact (Hd E)).
    destruct (existsb _ (rev stem)) eqn:E; [|reflexivity]. apply existsb_exists in E. destruct E as [c [Hc E]].
    apply in_rev in Hc. rewrite (Hall c Hc) in E. rewrite (proj2 (Ascii.eqb_eq dot dot) eq_refl) in E. discriminate.
  - intro E. apply in_app_or in E. destruct E as [E|[E|E]]; [exact (Hs1 E)| |exact (Hs2 E)]. discriminate.
Qed.

(* ------------------------------------------------------------------ the closed polyline *)
Section PlotProofs.
  Variable V : Type.
  Notation pt := (V * V)%type.

  Lemma polyline_length swap (coords : list pt) : coords <> [] ->
    List.length (polyline V swap coords) = S (List.length coords).
  Proof. destruct coords as [|p0 tl]; [congruence|]. intros _. unfold polyline. rewrite app_length, map_length. cbn [List.length]. lia. Qed.

  (* point i of the line is contour point i (axes exchanged iff swap), for every i < n *)
  Lemma polyline_point swap (coords : list pt) i : (i < List.length coords)%nat ->
    nth_error (polyline V swap coords) i = option_map (pproj V swap) (nth_error coords i).
  Proof.
    destruct coords as [|p0 tl]; [cbn; lia|]. intros H. unfold polyline.
    rewrite nth_error_app1 by (rewrite map_length; exact H). apply nth_error_map.
  Qed.

  (* ... and the first point is repeated at the end *)
  Lemma polyline_closing swap (p0 : pt) tl :
    nth_error (polyline V swap (p0 :: tl)) (List.length (p0 :: tl)) = Some (pproj V swap p0) /\
    nth_error (polyline V swap (p0 :: tl)) 0 = Some (pproj V swap p0).
  Proof.
    split; [|reflexivity]. unfold polyline.
    rewrite nth_error_app2 by (rewrite map_length; lia). rewrite map_length, Nat.sub_diag. reflexivity.
  Qed.

  Lemma polyline_length_cons swap (p0 : pt) tl :
    List.length (polyline V swap (p0 :: tl)) = S (List.length (p0 :: tl)).
  Proof. apply polyline_length. discriminate. Qed.

  Lemma pproj_false (p : pt) : pproj V false p = p.
  Proof. reflexivity. Qed.
  Lemma pproj_true (a b : V) : pproj V true (a, b) = (b, a).
  Proof. reflexivity. Qed.

  Lemma polyline_noswap (p0 : pt) tl : polyline V false (p0 :: tl) = (p0 :: tl) ++ [p0].
  Proof. unfold polyline. f_equal. induction (p0 :: tl) as [|a l IH]; [reflexivity|]. cbn [map pproj]. rewrite IH. reflexivity. Qed.

  Lemma polyline_swap coords : polyline V true coords = polyline V false (map (pproj V true) coords).
  Proof.
    destruct coords as [|p0 tl]; [reflexivity|]. unfold polyline. cbn [map]. rewrite map_map.
    assert (E : map (fun x => pproj V false (pproj V true x)) tl = map (pproj V true) tl) by (apply map_ext; reflexivity).
    rewrite E. reflexivity.
  Qed.

  (* sample points: every point, in order, axes exchanged iff swap *)
  Lemma sample_scatter_spec swap (s : list pt) :
    List.length (sample_scatter V swap s) = List.length s /\
    forall i, nth_error (sample_scatter V swap s) i = option_map (pproj V swap) (nth_error s i).
  Proof. unfold sample_scatter. split; [apply map_length|intros i; apply nth_error_map]. Qed.

  (* design conditions: none drawn for None, the computed ones for True, a supplied array as it is *)
  Lemma dc_scatter_spec computed (a : list pt) :
    dc_scatter V computed DcNone = None /\ dc_scatter V computed DcTrue = Some computed /\
    dc_scatter V computed (DcArray a) = Some a.
  Proof. repeat split. Qed.

  Lemma collections_spec swap computed a (s : list pt) :
    collections V swap computed (DcArray a) (Some s) = [a; sample_scatter V swap s] /\
    collections V swap computed DcTrue (Some s) = [computed; sample_scatter V swap s] /\
    collections V swap computed DcNone (Some s) = [sample_scatter V swap s] /\
    collections V swap computed (DcArray a) None = [a] /\
    collections V swap computed DcTrue None = [computed] /\
    collections V swap computed DcNone None = [].
  Proof. repeat split. Qed.

  (* curves and scatters of the other plot functions carry the function values unmodified *)
  Lemma curve_spec (f : V -> V) xs :
    map fst (curve V f xs) = xs /\ map snd (curve V f xs) = map f xs /\ List.length (curve V f xs) = List.length xs.
  Proof.
    unfold curve. rewrite !map_map, map_length. cbn [fst snd]. split; [apply map_id|]. split; reflexivity.
  Qed.

  Lemma scatter_pairs_spec (xs ys : list V) : List.length xs = List.length ys ->
    map fst (scatter_pairs V xs ys) = xs /\ map snd (scatter_pairs V xs ys) = ys.
  Proof.
    unfold scatter_pairs. revert ys. induction xs as [|x xs IH]; intros [|y ys] H; try discriminate; [split; reflexivity|].
    cbn [combine map fst snd]. injection H as H. destruct (IH ys H) as [A B]. rewrite A, B. split; reflexivity.
  Qed.
End PlotProofs.

(* ------------------------------------------------------------------ the dataset reader *)
Definition clean (f : text) : Prop := ~ In semi f /\ lstrip f = f.

Lemma lstrip_pad f : lstrip (space :: f) = lstrip f.
Proof. cbn [lstrip]. rewrite (proj2 (Ascii.eqb_eq space space) eq_refl). reflexivity. Qed.

(* the fields of a rendered line are the fields that were rendered *)
Lemma fields_render fs : fs <> [] -> Forall clean fs -> fields (render_line fs) = fs.
Proof.
  intros Hn HF. destruct fs as [|a tl]; [congruence|]. unfold fields, render_line.
  assert (Hs : ~ In semi [space]) by (intros [E|[]]; discriminate).
  assert (HF' : Forall (fun f => ~ In semi f) (a :: tl)) by (eapply Forall_impl; [|exact HF]; intros f [H _]; exact H).
  destruct tl as [|b tl].
  - cbn [join]. unfold split. rewrite split_acc_last by (inversion HF'; assumption). cbn [rev app map].
    inversion HF as [|? ? [_ E] _]. rewrite E. reflexivity.
  - rewrite join_cons2. unfold split. cbn [app]. rewrite split_acc_field by (inversion HF'; assumption).
    cbn [rev app map]. inversion HF as [|? ? [_ Ea] HFt]; subst. rewrite Ea. f_equal.
    change (split_acc semi [] (space :: join [semi; space] (b :: tl))) with (split semi ([space] ++ join (semi :: [space]) (b :: tl))).
    rewrite split_join_pad by (auto; inversion HF'; assumption).
    clear -HFt. induction HFt as [|f l [_ Ef] _ IH]; [reflexivity|]. cbn [map app]. rewrite lstrip_pad, Ef. f_equal. exact IH.
Qed.

Section ReaderProofs.
  Variables TS N : Type.
  Variable read_ts : text -> TS.
  Variable read_num : text -> N.
  Variable show_ts : TS -> text.      (* how the file was written *)
  Variable show_num : N -> text.
  (* contracts of the leaf parsers (pandas) w.r.t. the writer of the file *)
  Hypothesis read_show_ts : forall t, read_ts (show_ts t) = t.
  Hypothesis read_show_num : forall v, read_num (show_num v) = v.
  Hypothesis show_ts_clean : forall t, clean (show_ts t).
  Hypothesis show_num_clean : forall v, clean (show_num v).

  Definition render_row (r : TS * list N) : text := render_line (show_ts (fst r) :: map show_num (snd r)).
  Definition render (hdr : list text) (rows : list (TS * list N)) : list text :=
    render_line hdr :: map render_row rows.

  (* n data rows in => the same n rows out, same order, time stamp as index; the column names are the
     header fields after the first *)
  Lemma read_render hdr rows : hdr <> [] -> Forall clean hdr ->
    read_dataset TS N read_ts read_num (render hdr rows) = (tl hdr, rows).
  Proof.
    intros Hn Hc. unfold read_dataset, render. rewrite fields_render by assumption. f_equal.
    rewrite map_map. rewrite <- (map_id rows) at 2. apply map_ext. intros [t vs]. unfold render_row. cbn [fst snd].
    rewrite fields_render.
    - cbn [hd tl]. rewrite read_show_ts. f_equal. rewrite map_map. rewrite <- (map_id vs) at 2. apply map_ext. exact read_show_num.
    - discriminate.
    - constructor; [apply show_ts_clean|]. apply Forall_forall. intros f Hf. apply in_map_iff in Hf. destruct Hf as [v [<- _]]. apply show_num_clean.
  Qed.

  Lemma read_render_length hdr rows : hdr <> [] -> Forall clean hdr ->
    List.length (snd (read_dataset TS N read_ts read_num (render hdr rows))) = List.length rows.
  Proof. intros. rewrite read_render by assumption. reflexivity. Qed.
End ReaderProofs.

(* ================================================================== audit round: further behaviour *)

(* any number of blanks after the delimiter (skipinitialspace): "a;b", "a; b", "a;   b" read the same *)
Lemma lstrip_spaces k f : lstrip (repeat space k ++ f) = lstrip f.
Proof. induction k as [|k IH]; [reflexivity|]. cbn [repeat app]. rewrite lstrip_pad. exact IH. Qed.

Lemma fields_render_k k fs : fs <> [] -> Forall clean fs -> fields (join (semi :: repeat space k) fs) = fs.
Proof.
  intros Hn HF. destruct fs as [|a tl]; [congruence|]. unfold fields.
  assert (Hs : ~ In semi (repeat space k)) by (intros E; apply repeat_spec in E; discriminate).
  assert (HF' : Forall (fun f => ~ In semi f) (a :: tl)) by (eapply Forall_impl; [|exact HF]; intros f [H _]; exact H).
  destruct tl as [|b tl].
  - cbn [join]. unfold split. rewrite split_acc_last by (inversion HF'; assumption). cbn [rev app map].
    inversion HF as [|? ? [_ E] _]. rewrite E. reflexivity.
  - rewrite join_cons2. unfold split. cbn [app]. rewrite split_acc_field by (inversion HF'; assumption).
    cbn [rev app map]. inversion HF as [|? ? [_ Ea] HFt]; subst. rewrite Ea. f_equal.
    change (split_acc semi [] (repeat space k ++ join (semi :: repeat space k) (b :: tl)))
      with (split semi (repeat space k ++ join (semi :: repeat space k) (b :: tl))).
    rewrite split_join_pad by (auto; inversion HF'; assumption).
    clear -HFt. induction HFt as [|f l [_ Ef] _ IH]; [reflexivity|]. cbn [map]. rewrite lstrip_spaces, Ef. f_equal. exact IH.
Qed.

(* reading the written file back: split at newlines, drop the empty tail, split each line at ';' *)
Definition parse_back (t : text) : list (list text) := map (split semi) (removelast (split newline t)).

Lemma in_join c sep l : In c (join sep l) -> In c sep \/ exists f, In f l /\ In c f.
Proof.
  induction l as [|a l IH]; [intros []|]. destruct l as [|b l].
  - cbn [join]. intros H. right. exists a. split; [left; reflexivity|exact H].
  - rewrite join_cons2. intros H. apply in_app_or in H. destruct H as [H|H].
    + right. exists a. split; [left; reflexivity|exact H].
    + apply in_app_or in H. destruct H as [H|H]; [left; exact H|].
      destruct (IH H) as [E|[f [Hf Hc]]]; [left; exact E|right; exists f; split; [right; exact Hf|exact Hc]].
Qed.

Lemma parse_back_file V (fmt : V -> text) names units n coords :
  ~ In newline (header names units n) -> (forall v, ~ In newline (fmt v)) -> (forall v, ~ In semi (fmt v)) ->
  Forall (fun row => row <> []) coords ->
  parse_back (file_text (file_lines V fmt names units n coords)) =
  split semi (header names units n) :: map (map fmt) coords.
Proof.
  intros Hh Hn Hs Hr. unfold parse_back. rewrite file_text_lines.
  - rewrite removelast_last. unfold file_lines. cbn [map]. f_equal. rewrite map_map.
    clear Hh. induction Hr as [|row l Hrow _ IH]; [reflexivity|]. cbn [map]. rewrite (row_fields V fmt row Hrow Hs). f_equal. exact IH.
  - unfold file_lines. constructor; [exact Hh|]. apply Forall_forall. intros l Hl. apply in_map_iff in Hl.
    destruct Hl as [row [<- _]]. unfold row_line. intros E. apply in_join in E. destruct E as [[E|[]]|[f [Hf Hc]]]; [discriminate|].
    apply in_map_iff in Hf. destruct Hf as [v [<- _]]. exact (Hn v Hc).
Qed.
