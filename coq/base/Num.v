(* Number structure over which translated code (coq/gen) and the algebraic hand models are written once:
   the R instance is used by every theorem, the binary64 instance (with recorded tables for the
   transcendental functions, which Coq's primitive floats do not have) by the validation runs. *)
From Coq Require Import ZArith QArith Reals List String PrimFloat.
From V.base Require Import FloatBits.
Import ListNotations.

Record NumOps (T : Type) := {
  n_lit : Q -> float -> T;      (* a decimal literal: its exact rational value and its binary64 rounding *)
  n_Z : Z -> T;
  n_pi : T;
  n_add : T -> T -> T; n_sub : T -> T -> T; n_mul : T -> T -> T; n_div : T -> T -> T;
  n_opp : T -> T;
  n_sqrt : T -> T; n_exp : T -> T; n_log : T -> T; n_log10 : T -> T;
  n_powZ : T -> Z -> T;         (* x ** <int literal> *)
  n_rpow : T -> T -> T;         (* x ** y *)
  n_leb : T -> T -> bool; n_ltb : T -> T -> bool
}.
Arguments n_lit {T}. Arguments n_Z {T}. Arguments n_pi {T}. Arguments n_add {T}. Arguments n_sub {T}.
Arguments n_mul {T}. Arguments n_div {T}. Arguments n_opp {T}. Arguments n_sqrt {T}. Arguments n_exp {T}.
Arguments n_log {T}. Arguments n_log10 {T}. Arguments n_powZ {T}. Arguments n_rpow {T}.
Arguments n_leb {T}. Arguments n_ltb {T}.

(* results of translated functions that can raise *)
Inductive res (A : Type) := Ok (a : A) | Err (e : string).
Arguments Ok {A}. Arguments Err {A}.
Definition bind {A B} (r : res A) (f : A -> res B) : res B := match r with Ok a => f a | Err e => Err e end.

(* a call of scipy.stats.<family>.<method>(x, *params) *)
Record call (T : Type) := mkcall { c_family : string; c_method : string; c_params : list T }.
Arguments mkcall {T}. Arguments c_family {T}. Arguments c_method {T}. Arguments c_params {T}.

(* a call of scipy.stats.<family>.fit(sample, *pos, **kw) *)
Record fitcall (T : Type) := mkfit { f_family : string; f_pos : list T; f_kw : list (string * T) }.
Arguments mkfit {T}. Arguments f_family {T}. Arguments f_pos {T}. Arguments f_kw {T}.

Definition is_none {A} (o : option A) : bool := match o with None => true | Some _ => false end.

(* elementwise (numpy) operations on equally long vectors, for translated array code *)
Definition vmap2 {T} (f : T -> T -> T) (a b : list T) : list T := map (fun p => f (fst p) (snd p)) (combine a b).
Definition vsum {T} (N : NumOps T) (l : list T) : T := fold_right (n_add N) (n_Z N 0) l.
(* v[np.nonzero(x)]: the entries of v at the positions where x is not zero *)
Definition vnonzero {T} (N : NumOps T) (x v : list T) : list T :=
  map snd (filter (fun p => negb (n_leb N (fst p) (n_Z N 0) && n_leb N (n_Z N 0) (fst p))) (combine x v)).

(* ---------------------------------------------------------------- exact reals *)
Local Open Scope R_scope.
Definition ROps : NumOps R := {|
  n_lit := fun q _ => Q2R q;
  n_Z := IZR;
  n_pi := PI;
  n_add := Rplus; n_sub := Rminus; n_mul := Rmult; n_div := Rdiv;
  n_opp := Ropp;
  n_sqrt := R_sqrt.sqrt; n_exp := Rtrigo_def.exp; n_log := ln; n_log10 := fun x => ln x / ln 10;
  n_powZ := fun x z => x ^ Z.to_nat z;
  n_rpow := Rpower;
  n_leb := fun a b => if Rle_dec a b then true else false;
  n_ltb := fun a b => if Rlt_dec a b then true else false
|}.

(* ---------------------------------------------------------------- binary64 with recorded tables *)
Local Close Scope R_scope.
Local Open Scope float_scope.
Definition tab1 := list (string * float * float).
Definition tab2 := list (string * float * float * float).
Fixpoint look1 (t : tab1) (f : string) (x : float) : float :=
  match t with
  | [] => nan
  | (g, a, r) :: t' => if String.eqb f g && fbits_eq a x then r else look1 t' f x
  end.
Fixpoint look2 (t : tab2) (f : string) (x y : float) : float :=
  match t with
  | [] => nan
  | (g, a, b, r) :: t' => if String.eqb f g && fbits_eq a x && fbits_eq b y then r else look2 t' f x y
  end.
Fixpoint fpow_pos (x : float) (n : nat) : float :=
  match n with O => 1 | S O => x | S n' => fpow_pos x n' * x end.
Definition FOps (t1 : tab1) (t2 : tab2) : NumOps float := {|
  n_lit := fun _ f => f;
  n_Z := FloatBits.of_Z;
  n_pi := 0x1.921fb54442d18p+1;
  n_add := PrimFloat.add; n_sub := PrimFloat.sub; n_mul := PrimFloat.mul; n_div := PrimFloat.div;
  n_opp := PrimFloat.opp;
  n_sqrt := PrimFloat.sqrt;
  n_exp := look1 t1 "exp"; n_log := look1 t1 "log"; n_log10 := look1 t1 "log10";
  n_powZ := fun x z => fpow_pos x (Z.to_nat z);
  n_rpow := look2 t2 "pow";
  n_leb := PrimFloat.leb; n_ltb := PrimFloat.ltb
|}.
