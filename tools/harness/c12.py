"""C12 -- maximum-likelihood fits do not lose likelihood and are scale-equivariant (partial: optimiser is an oracle)."""
import math

import numpy as np
import scipy.stats as sts

import vlib
from harness import _dist as D


def regular_params(rng, cname):
    u = rng.uniform
    return {"WeibullDistribution": lambda: {"alpha": u(0.5, 4), "beta": u(0.9, 3), "gamma": u(0.0, 1.0)},
            "LogNormalDistribution": lambda: {"mu": u(-0.5, 1.5), "sigma": u(0.15, 0.8)},
            "NormalDistribution": lambda: {"mu": u(1, 10), "sigma": u(0.3, 3)},
            "ExponentiatedWeibullDistribution": lambda: {"alpha": u(0.5, 3), "beta": u(0.8, 2.5), "delta": u(0.6, 4)},
            "GeneralizedGammaDistribution": lambda: {"m": u(0.8, 3), "c": u(0.8, 2.5), "lambda_": u(0.3, 2)},
            "VonMisesDistribution": lambda: {"kappa": u(0.5, 6), "mu": u(-1.5, 1.5)},
            "LogNormalNormFitDistribution": lambda: {"mu_norm": u(1, 6), "sigma_norm": u(0.3, 2)}}[cname]()


def loglik(cname, th, x):
    d = D.get_class(cname)(**th)
    with np.errstate(all="ignore"):
        try:
            p = np.asarray(d.pdf(x), dtype=float)
        except ZeroDivisionError:
            return -np.inf      # inadmissible default start values (norm-fit: mu_norm = 0)
        return float(np.sum(np.log(p))) if np.all(p > 0) else -np.inf


def scaled(cname, th, c):
    t = dict(th)
    for p in {"WeibullDistribution": ["alpha", "gamma"], "NormalDistribution": ["mu", "sigma"], "ExponentiatedWeibullDistribution": ["alpha"],
              "LogNormalNormFitDistribution": ["mu_norm", "sigma_norm"]}.get(cname, []):
        t[p] = th[p] * c
    if cname == "LogNormalDistribution":
        t["mu"] = th["mu"] + math.log(c)
    if cname == "GeneralizedGammaDistribution":
        t["lambda_"] = th["lambda_"] / c
    return t


def fit_params(cname, x, start=None, fixed=None):
    obj = D.get_class(cname)(**dict(start or {}, **(fixed or {})))
    obj.fit(x)
    return {k: float(v) for k, v in obj.parameters.items()}


def constrained_reference(cname, x, fixed_vals, th0):
    """independent constrained maximum of virocon's own likelihood over the free parameters (Nelder-Mead from th0)"""
    from scipy.optimize import minimize
    free = [p for p in D.FAMS[cname]["params"] if p not in fixed_vals]

    def nll(v):
        th = dict(fixed_vals, **dict(zip(free, v)))
        try:
            l = loglik(cname, th, x)
        except Exception:  # noqa
            return 1e300
        return -l if np.isfinite(l) else 1e300
    r = minimize(nll, [th0[p] for p in free], method="Nelder-Mead", options={"xatol": 1e-10, "fatol": 1e-10, "maxiter": 4000})
    return dict(fixed_vals, **dict(zip(free, [float(v) for v in r.x]))), -float(r.fun)


def oracle_fixed(case):
    """a subset of the parameters fixed.  (a) fixed AT THE GENERATING VALUES: the generating parameters are feasible, so the
    constrained fit (at most two free parameters) must not have lower likelihood than they have.  (b) fixed at OFFSET values,
    user start values = an independently computed constrained optimum: the fit must not lose likelihood against its start."""
    cname, th, n, seed = case["cls"], case["theta"], case["n"], case["seed"]
    x = np.asarray(D.get_class(cname)(**th).draw_sample(n, random_state=seed), dtype=float)
    fvals = {p: case.get("offset", {}).get(p, th[p]) for p in case["fixed"]}
    fx = {"f_" + p: v for p, v in fvals.items()}
    sig = {"cls": cname, "fixed": "+".join(sorted(case["fixed"]))}
    start = None
    if case.get("offset"):
        sig["offset"] = True
        ref, ll_ref = constrained_reference(cname, x, fvals, dict(th, **fvals))
        if not np.isfinite(ll_ref) or ll_ref < -1e200:
            return None
        start = {p: ref[p] for p in ref if p not in fvals}
    try:
        fit = fit_params(cname, x, start, fx)
    except Exception as e:  # noqa
        return (dict(sig, clause="fit-exception", exc=type(e).__name__), "fit with %r raised %s: %s" % (fx, type(e).__name__, str(e)[:100]))
    if not all(np.isfinite(v) for v in fit.values()):
        return (dict(sig, clause="nonfinite"), "fitted parameters not finite: %r" % fit)
    ll_fit = loglik(cname, fit, x)
    if case.get("offset"):
        ll_start = loglik(cname, ref, x)
        if ll_fit < ll_start - (1e-3 + 1e-6 * abs(ll_start)):   # (tolerance from the finite side: a fit of likelihood -inf loses)
            return (dict(sig, clause="loses-vs-start"),
                    "%s(%s, start %r).fit(x): log-likelihood %.6f at the fitted parameters %r < %.6f at the start parameters"
                    % (cname, ", ".join("%s=%r" % kv for kv in fx.items()), start, ll_fit, fit, ll_start))
        return None
    ll_true = loglik(cname, th, x)
    if ll_fit < ll_true - (1e-3 + 1e-6 * abs(ll_true)):
        return (dict(sig, clause="loses-vs-true"),
                "%s(%s).fit(x): log-likelihood %.6f at the fitted parameters %r < %.6f at the generating parameters %r (which satisfy the fixed values)"
                % (cname, ", ".join("%s=%r" % kv for kv in fx.items()), ll_fit, fit, ll_true, th))
    return None


def oracle(case, notes=None):
    cname, th, n, seed, c = case["cls"], case["theta"], case["n"], case["seed"], case["c"]
    x = np.asarray(D.get_class(cname)(**th).draw_sample(n, random_state=seed), dtype=float)
    start = case.get("start")
    start_th = dict({p: getattr(D.get_class(cname)(**(start or {})), p) for p in D.FAMS[cname]["params"]})
    try:
        # the usual sequence: likelihood at the start values, fit, likelihood after -- all through the SAME object
        obj = D.get_class(cname)(**(start or {}))
        with np.errstate(all="ignore"):
            try:
                obj.pdf(x[:5]), obj.cdf(x[:5]), obj.icdf(np.array([0.5]))
            except ZeroDivisionError:
                pass
        obj.fit(x)
        fit = {k: float(v) for k, v in obj.parameters.items()}
    except Exception as e:  # noqa
        return ({"cls": cname, "clause": "fit-exception", "exc": type(e).__name__}, "fit raised %s: %s" % (type(e).__name__, str(e)[:100]))
    with np.errstate(all="ignore"):
        p_obj = np.asarray(obj.pdf(x), dtype=float)
        p_new = np.asarray(D.get_class(cname)(**fit).pdf(x), dtype=float)
    if not np.array_equal(p_obj, p_new, equal_nan=True):
        return ({"cls": cname, "clause": "fitted-object-density"},
                "%s: after evaluate - fit the object reports %r but sum(log dist.pdf(data)) = %r; an instance with these parameters gives %r"
                % (cname, fit, float(np.sum(np.log(p_obj))), float(np.sum(np.log(p_new)))))
    # method='mle' with a weights argument is still maximum likelihood (weights only matter for (w)lsq)
    if case.get("mle_weights") is not None:
        w = case["mle_weights"] if isinstance(case["mle_weights"], str) else np.linspace(0.5, 1.5, len(x))
        try:
            o2 = D.get_class(cname)(**(start or {}))
            o2.fit(x, method="mle", weights=w)
            fit_w = {k: float(v) for k, v in o2.parameters.items()}
        except Exception as e:  # noqa
            return ({"cls": cname, "clause": "mle-with-weights", "exc": type(e).__name__}, "%s.fit(x, method='mle', weights=%r) raised %s: %s" % (cname, case["mle_weights"], type(e).__name__, str(e)[:100]))
        if any(not math.isclose(fit_w[k], fit[k], rel_tol=1e-9, abs_tol=1e-12) for k in fit):
            return ({"cls": cname, "clause": "mle-with-weights"}, "%s.fit(x, method='mle', weights=%r) gives %r, without weights %r" % (cname, case["mle_weights"], fit_w, fit))
    if not all(np.isfinite(v) for v in fit.values()):
        return ({"cls": cname, "clause": "nonfinite"}, "fitted parameters not finite: %r" % fit)
    adm = {"WeibullDistribution": ["alpha", "beta"], "LogNormalDistribution": ["sigma"], "NormalDistribution": ["sigma"],
           "ExponentiatedWeibullDistribution": ["alpha", "beta", "delta"], "GeneralizedGammaDistribution": ["m", "c", "lambda_"],
           "VonMisesDistribution": ["kappa"], "LogNormalNormFitDistribution": ["mu_norm", "sigma_norm"]}[cname]
    if any(fit[p] <= 0 for p in adm):
        return ({"cls": cname, "clause": "inadmissible"}, "fitted parameters not admissible: %r" % fit)
    ll_fit, ll_start, ll_true = loglik(cname, fit, x), loglik(cname, start_th, x), loglik(cname, th, x)
    tol = 1e-3 + 1e-6 * (abs(ll_fit) if np.isfinite(ll_fit) else 0.0)
    if cname != "LogNormalNormFitDistribution":   # moment fit, not an MLE of the log-normal likelihood
        if ll_fit < ll_start - tol:
            return ({"cls": cname, "clause": "loses-vs-start"}, "log-likelihood %.6f after fit < %.6f at the start parameters" % (ll_fit, ll_start))
        if ll_fit < ll_true - tol:
            # the engine (scipy's optimiser) may stop early on 3-parameter families: judge virocon only if a direct scipy call does better
            if notes is not None:
                notes["unjudgeable_optimiser"] = notes.get("unjudgeable_optimiser", 0) + 1
            if cname in ("NormalDistribution", "LogNormalDistribution"):
                return ({"cls": cname, "clause": "loses-vs-true"}, "log-likelihood %.6f after fit < %.6f at the generating parameters" % (ll_fit, ll_true))
            if cname == "WeibullDistribution" and ll_fit < ll_true - 1.0:
                # 3-parameter Weibull, every parameter free: a loss of more than one unit is no optimiser tolerance (measured on the
                # unchanged tree: 27 of 108 samples of 2000 points with shape 0.8-1.1, tens to hundreds of units; listed as a known finding)
                return ({"cls": cname, "clause": "loses-vs-true", "free": "all"},
                        "WeibullDistribution(%s).fit(x), %d observations generated with %r: log-likelihood %.3f at the fitted parameters %r < %.3f at the generating parameters"
                        % ("start %r" % case["start"] if case.get("start") else "default start", len(x), th, ll_fit, fit, ll_true))
    # scale equivariance
    try:
        fit_c = fit_params(cname, c * x, start)
    except Exception as e:  # noqa
        return ({"cls": cname, "clause": "fit-exception", "exc": type(e).__name__}, "fit of scaled data raised %s" % type(e).__name__)
    if cname != "VonMisesDistribution":
        tr = scaled(cname, fit, c)
        ll_a, ll_b = loglik(cname, fit_c, c * x), loglik(cname, tr, c * x)
        if cname in ("NormalDistribution", "LogNormalDistribution", "LogNormalNormFitDistribution"):
            for p in tr:
                if not math.isclose(fit_c[p], tr[p], rel_tol=2e-3, abs_tol=2e-3):
                    return ({"cls": cname, "clause": "equivariance", "param": p}, "fit(c x).%s = %r but transformed fit(x) gives %r (c=%r)" % (p, fit_c[p], tr[p], c))
        elif not abs(ll_a - ll_b) <= 0.05 + 1e-4 * abs(ll_a):
            if notes is not None:
                notes["unjudgeable_equivariance"] = notes.get("unjudgeable_equivariance", 0) + 1
            if not abs(ll_a - ll_b) <= 1.0 + 1e-4 * abs(ll_a):
                # more than one log-likelihood unit between fit(c x) and the transformed fit(x) is no optimiser tolerance
                # (measured on the unchanged tree: 0 of 120 exponentiated Weibull / generalized gamma fits beyond 0.05 units;
                # the free 3-parameter Weibull with shape near one up to 21 units and -inf: same known finding as loses-vs-true)
                sg = {"cls": cname, "clause": "equivariance"}
                if cname == "WeibullDistribution":
                    sg["free"] = "all"
                return (sg, "%s: fit(%r x) has log-likelihood %.3f on the scaled data, the transformed fit(x) %.3f (generating %r, %d observations, %s)"
                        % (cname, c, ll_a, ll_b, th, len(x), "start %r" % case["start"] if case.get("start") else "default start"))
    return None


SCIPY_FAMS = [("gumbel_r", {}, {"loc": 2.0, "scale": 1.5}), ("rayleigh", {}, {"loc": 0.0, "scale": 2.0}),
              ("weibull_min", {"f_loc": 0}, {"c": 1.6, "loc": 0.0, "scale": 2.5}), ("gamma", {"f_loc": 0}, {"a": 2.5, "loc": 0.0, "scale": 1.2}),
              ("gengamma", {"f_loc": 0}, {"a": 2.0, "c": 1.5, "loc": 0.0, "scale": 1.5}), ("weibull_min", {}, {"c": 1.8, "loc": 0.5, "scale": 2.0})]


def scipy_oracle(fam, fixed, th, n, seed, c):
    """ScipyDistribution subclasses: likelihood after fit vs start / generating parameters, scale equivariance"""
    dm = D.dist_module()
    sd = getattr(sts, fam)
    Cls = type("My_" + fam, (dm.ScipyDistribution,), {"scipy_dist_name": fam})
    names = list(th)
    x = sd.rvs(*[th[k] for k in names], size=n, random_state=seed)
    sig = {"cls": "ScipyDistribution", "family": fam, "fixed": "+".join(sorted(fixed))}

    def ll(par, data):
        with np.errstate(all="ignore"):
            return float(np.sum(sd.logpdf(data, *[par[k] for k in names])))
    d = Cls(**fixed)
    start = {k: float(d.parameters[k]) for k in names}
    d.fit(x)
    fit = {k: float(d.parameters[k]) for k in names}
    if not all(np.isfinite(v) for v in fit.values()):
        return (dict(sig, clause="nonfinite"), "fitted parameters not finite: %r" % fit)
    l_fit, l_start, l_true = ll(fit, x), ll(start, x), ll(th, x)
    tol = 1e-3 + 1e-6 * abs(l_fit)
    if l_fit < l_start - tol:
        return (dict(sig, clause="loses-vs-start"), "log-likelihood %.4f after fit < %.4f at the start parameters" % (l_fit, l_start))
    if l_fit < l_true - max(tol, 0.02 * abs(l_true)) and len(names) - len(fixed) <= 2:
        return (dict(sig, clause="loses-vs-true"), "log-likelihood %.4f after fit is far below %.4f at the generating parameters (fit=%r)" % (l_fit, l_true, fit))
    d2 = Cls(**{k: (v * c if k in ("f_loc", "f_scale") else v) for k, v in fixed.items()})
    d2.fit(c * x)
    fit_c = {k: float(d2.parameters[k]) for k in names}
    tr = {k: (v * c if k in ("loc", "scale") else v) for k, v in fit.items()}
    if abs(ll(fit_c, c * x) - ll(tr, c * x)) > 0.05 + 1e-3 * abs(l_fit) and len(names) - len(fixed) <= 2:
        return (dict(sig, clause="equivariance"), "fit(c x) = %r but the transformed fit(x) is %r (c=%r)" % (fit_c, tr, c))
    return None


def replay(ctx, case):
    if isinstance(case.get("fixed"), list) and "cls" in case:
        o = oracle_fixed(case)
        if o:
            print("  ", o[1])
        return o is not None
    if case.get("scipydist"):
        o = scipy_oracle(case["family"], case["fixed"], case["theta"], case["n"], case["seed"], case["c"])
        if o:
            print("  ", o[1])
        return o is not None
    o = oracle(case)
    if o:
        print("  ", o[1])
    return o is not None


def run(ctx):
    ctx.proof_gate()
    ncmp, mism, extra = D.translator_validation(ctx, ctx.n(200, 2000))
    ctx.cov["programs"] = 6
    ctx.notes["translator_validation"] = dict(compared=ncmp, mismatches=len(mism), **extra)
    for m in [m for m in mism if m.get("case", {}).get("method") == "_fit_mle"][:5]:
        ctx.mismatch("generated %s._fit_mle" % m["case"]["cls"], m["what"])
    sd_bad = D.scipydist_correspondence(ctx, ctx.n(120, 1200), parts=("fit",))
    ctx.notes["scipydist_correspondence"] = {"mismatches": len(sd_bad)}
    for b in sd_bad[:5]:
        ctx.mismatch("ScipyDistribution._fit_mle hand model", b["what"])
    rng = ctx.rng
    notes = {}
    found = 0
    cases = []
    for rep in range(ctx.n(2, 12)):
        for cname in D.FAMS:
            th = regular_params(rng, cname)
            cases.append({"cls": cname, "theta": th, "n": rng.choice([100, 300, 1000] if ctx.quick() else [100, 500, 2000, 5000]),
                          "seed": rng.randrange(10 ** 6), "c": rng.choice([0.5, 0.8, 1.5, 2.0]),
                          "start": None if rep % 2 == 0 else {k: v * rng.uniform(0.8, 1.25) for k, v in th.items()},
                          "mle_weights": rng.choice([None, "linear", "quadratic", "cubic", "array"])})
    for rep in range(ctx.n(3, 12)):   # user start values = generating parameters, scale parameters far from 1
        for cname, th in (("GeneralizedGammaDistribution", {"m": rng.uniform(0.85, 1.0), "c": rng.uniform(1.3, 2.0), "lambda_": rng.uniform(0.09, 0.12)}),
                          ("WeibullDistribution", {"alpha": rng.uniform(8, 15), "beta": rng.uniform(1.2, 2.5), "gamma": 0.5}),
                          ("WeibullDistribution", {"alpha": rng.uniform(0.05, 0.12), "beta": rng.uniform(1.05, 1.5), "gamma": rng.uniform(0.05, 0.3)}),   # low end of the magnitude range: location within 1e-4 of the smallest observation
                          ("ExponentiatedWeibullDistribution", {"alpha": rng.uniform(0.08, 0.15), "beta": rng.uniform(1.0, 2.0), "delta": rng.uniform(1, 3)}),
                          ("LogNormalDistribution", {"mu": rng.uniform(2.0, 2.8), "sigma": rng.uniform(0.2, 0.5)})):
            cases.append({"cls": cname, "theta": th, "n": rng.choice([1000, 3000]), "seed": rng.randrange(10 ** 6), "c": rng.choice([0.5, 2.0]), "start": dict(th)})
    # EVERY run: the 3-parameter Weibull with shape close to (or below) one at the regular end of the claimed region
    for th_, sd_ in (({"alpha": 0.7, "beta": 0.8, "gamma": 0.55}, 3), ({"alpha": 1.5, "beta": 0.8, "gamma": 0.8}, 1), ({"alpha": 3.0, "beta": 0.8, "gamma": 0.3}, 2),
                     ({"alpha": 1.5, "beta": 1.0, "gamma": 0.55}, 1), ({"alpha": 0.7, "beta": 1.1, "gamma": 0.3}, 2)):
        cases.append({"cls": "WeibullDistribution", "theta": th_, "n": 2000, "seed": sd_, "c": 2.0, "start": None, "mle_weights": None})
    dist = {}
    for c in cases:
        dist[c["cls"]] = dist.get(c["cls"], 0) + 1
        ctx.count((c["cls"], tuple(sorted(c["theta"].items())), c["seed"]), True)
        try:
            o = oracle(c, notes)
        except Exception as e:  # noqa
            o = ({"cls": c["cls"], "clause": "exception", "exc": type(e).__name__}, "%s: %s" % (type(e).__name__, e))
        if o is not None and ctx.violation(o[0], o[1], c):
            found += 1
            if found >= 6:
                break
    # every non-empty proper subset of the parameters fixed at the generating values
    import itertools
    fcases = []
    for cname in D.FAMS:
        if cname == "LogNormalNormFitDistribution":
            continue
        ps = D.FAMS[cname]["params"]
        for k in range(1, len(ps)):
            for sub in itertools.combinations(ps, k):
                for rep in range(ctx.n(1, 4)):
                    fcases.append({"cls": cname, "theta": regular_params(rng, cname), "fixed": list(sub), "n": rng.choice([100, 300, 1000]), "seed": rng.randrange(10 ** 6)})
                    th = regular_params(rng, cname)
                    off = {}
                    for p in sub:   # a prescribed value away from the generating one (location parameters shifted, positive ones scaled)
                        off[p] = th[p] + rng.choice([-1, 1]) * rng.uniform(0.3, 1.0) if p in ("mu", "gamma") and cname != "LogNormalDistribution" else th[p] * rng.choice([0.6, 0.8, 1.3, 1.7])
                    for p in sub:   # a location fixed at exactly 0 (int or float) while the data are centred elsewhere
                        if (cname, p) in (("VonMisesDistribution", "mu"), ("NormalDistribution", "mu"), ("LogNormalDistribution", "mu")) and rng.random() < 0.5:
                            off[p] = rng.choice([0, 0.0])
                    if cname == "WeibullDistribution" and "gamma" in off:
                        off["gamma"] = max(0.0, min(off["gamma"], 0.5 * th["gamma"]))   # the location must stay below the data
                    fcases.append({"cls": cname, "theta": th, "fixed": list(sub), "offset": off, "n": rng.choice([100, 300, 1000]), "seed": rng.randrange(10 ** 6)})
    for c in fcases:
        ctx.count((c["cls"], tuple(c["fixed"]), c["seed"]), True)
        try:
            o = oracle_fixed(c)
        except Exception as e:  # noqa
            o = ({"cls": c["cls"], "clause": "exception", "exc": type(e).__name__}, "%s: %s" % (type(e).__name__, e))
        if o is not None and ctx.violation(o[0], o[1], c):
            found += 1
            if found >= 8:
                break
    ctx.notes["fixed_subset_cases"] = len(fcases)
    for fam, fixed, th in SCIPY_FAMS:
        for rep in range(ctx.n(1, 4)):
            case = {"scipydist": True, "family": fam, "fixed": fixed, "theta": th, "n": rng.choice([200, 1000]), "seed": rng.randrange(10 ** 6), "c": rng.choice([0.5, 2.0])}
            ctx.count(("scipydist", fam, tuple(fixed), case["seed"]), True)
            try:
                o = scipy_oracle(fam, fixed, th, case["n"], case["seed"], case["c"])
            except Exception as e:  # noqa
                o = ({"cls": "ScipyDistribution", "family": fam, "clause": "exception", "exc": type(e).__name__}, "%s: %s" % (type(e).__name__, e))
            if o is not None:
                ctx.violation(o[0], o[1], case)
    ctx.notes.update(notes)
    ctx.notes["input_distribution"] = dist
    ctx.sample(cases[0])
    ctx.cov["rule"] = "families x regular parameters x sample sizes 100..5000 x default/user start x scale factor; non-trivial: all; distinct = (class, theta, seed)"
    ctx.cov["trusted_base"] = ["Coq kernel", "tools/py2v.py", "scipy's optimiser (oracle: not worse than start; validated numerically, engine failures counted as unjudgeable)"]
    ctx.assumptions += ["optimiser quality is scipy's; the theorems cover the glue (start values, fixed keywords, unpacking, parameter map) and the equivariance of the exact likelihood"]
