(* C14 -- virocon/_fitting.py fit_function / _fit_with_fixed_parameters (the curve_fit path as repaired by 0d86980):
   declared bounds whose lower end equals their upper end hold that parameter at the value; the other parameters
   are fitted by curve_fit on a function that embeds them between the held values.

     fixed = {i: lower for i, (lower, upper) in enumerate(bounds) if lower is not None and lower == upper}
     if fixed: return _fit_with_fixed_parameters(...)
     ...
     free = [i for i in range(len(p0)) if i not in fixed]
     popt = np.array(p0, dtype=float); popt[i] = value for the fixed ones
     func_of_free_parameters(x, *free_values): p = popt.copy(); p[free] = free_values; return func(x, *p)
     if free: popt[free] = fit_function(func_of_free_parameters, x, y, [p0[i] for i in free], method,
                                        [bounds[i] for i in free], weights)
     return popt

   The optimiser is an oracle `curve_fit sigma box embed p0`: whether sigma is passed, the box, HOW the vector it
   varies is embedded into the parameter vector of the declared function, and its start vector. *)
From Coq Require Import List Arith Bool.
From V.model Require Import DepProtocol.
Import ListNotations.

Section Held.
  Variable T : Type.
  Variables neg_inf pos_inf : T.
  Variable eqb : T -> T -> bool.

  (* lower is not None and lower == upper  (None == x is False in Python) *)
  Definition held (b : option T * option T) : option T :=
    match b with
    | (Some l, Some u) => if eqb l u then Some l else None
    | _ => None
    end.
  Definition fixed_of (bs : list (option T * option T)) : list (option T) := map held bs.
  Definition is_some {A} (o : option A) : bool := match o with Some _ => true | None => false end.
  Definition has_fixed (bs : list (option T * option T)) : bool := existsb is_some (fixed_of bs).

  (* [l[i] for i in free] *)
  Fixpoint select_free {A} (fx : list (option T)) (l : list A) : list A :=
    match fx, l with
    | None :: fx', a :: l' => a :: select_free fx' l'
    | Some _ :: fx', _ :: l' => select_free fx' l'
    | _, _ => []
    end.

  (* popt with p[free] = free_values: the held values stay, the free positions take the values in order;
     positions for which no value is left keep the entry of `base` (popt = p0 there) *)
  Fixpoint scatter (fx : list (option T)) (base free_vals : list T) : list T :=
    match fx, base with
    | [], _ => base
    | Some v :: fx', _ :: base' => v :: scatter fx' base' free_vals
    | None :: fx', b :: base' =>
        match free_vals with
        | a :: r => a :: scatter fx' base' r
        | [] => b :: scatter fx' base' []
        end
    | _ :: _, [] => []
    end.

  Definition oracle := bool -> option (list T * list T) -> (list T -> list T) -> list T -> list T.

  Definition fit_function (curve_fit : oracle) (has_weights : bool)
             (bounds : option (list (option T * option T))) (p0 : list T) : list T :=
    match bounds with
    | None => curve_fit has_weights None (fun p => p) p0
    | Some bs =>
        if has_fixed bs then
          let fx := fixed_of bs in
          match select_free fx p0 with
          | [] => scatter fx p0 []                                         (* `if free:` is false *)
          | fp0 => scatter fx p0 (curve_fit has_weights (Some (convert_bounds T neg_inf pos_inf (select_free fx bs)))
                                            (scatter fx p0) fp0)
          end
        else curve_fit has_weights (Some (convert_bounds T neg_inf pos_inf bs)) (fun p => p) p0
    end.
End Held.

(* binary64 instance used by the correspondence check: the recorded optimiser result stands for the oracle *)
From Coq Require Import PrimFloat.
From V.base Require Import FloatBits.
Definition ffit_function (popt : list float) (hw : bool) (bounds : option (list (option float * option float))) (p0 : list float) :=
  fit_function float neg_infinity infinity PrimFloat.eqb (fun _ _ _ _ => popt) hw bounds p0.
Definition ffree_p0 (bs : list (option float * option float)) (p0 : list float) : list float :=
  select_free float (fixed_of float PrimFloat.eqb bs) p0.
Definition ffree_box (bs : list (option float * option float)) : list float * list float :=
  convert_bounds float neg_infinity infinity (select_free float (fixed_of float PrimFloat.eqb bs) bs).
