"""C05 -- every distribution's cdf/icdf/pdf follow the documented formula and each other (DESIGN.md 6 C05)."""
import math

import numpy as np
from scipy import integrate

import vlib
from harness import _dist as D

CLAUSES = ["override", "kinds", "documented", "roundtrip", "derivative", "support", "monotone"]


def make_scipy_subclass():
    dm = D.dist_module()

    class MyWeibull(dm.ScipyDistribution):
        scipy_dist_name = "weibull_min"
    return MyWeibull


def oracle(case):
    """case: {cls, theta, explicit(dict), xs(list)} -> None or (signature, message)"""
    cname, th, expl, xs = case["cls"], case["theta"], case["explicit"], case["xs"]
    Cls = D.get_class(cname)
    ps = D.FAMS[cname]["params"]
    base = Cls(**case.get("base", D.rand_params(__import__("random").Random(1), cname)))
    merged = dict(case.get("base") or {}, **expl) if case.get("base") else None
    x = np.array(xs, dtype=float)
    tol = dict(rtol=1e-9, atol=1e-12)
    # ---- override law: every method, explicit values == instance constructed with those values
    if case.get("base"):
        inst = Cls(**merged)
        for m in ("cdf", "pdf", "icdf"):
            arg = x if m != "icdf" else np.clip(inst.cdf(x), 1e-9, 1 - 1e-9)
            a = getattr(base, m)(arg, **expl)
            b = getattr(inst, m)(arg)
            if not np.array_equal(np.asarray(a), np.asarray(b), equal_nan=True):
                bad = [p for p in expl if not np.array_equal(np.asarray(getattr(base, m)(arg, **{p: expl[p]})),
                                                             np.asarray(getattr(Cls(**dict(case["base"], **{p: expl[p]})), m)(arg)), equal_nan=True)]
                return ({"cls": cname, "clause": "override", "method": m, "param": (bad or list(expl))[0]},
                        "%s(%r).%s(x, %r) differs from an instance constructed with these values" % (cname, case["base"], m, expl))
        a = base.draw_sample(5, **expl, random_state=7)
        b = inst.draw_sample(5, random_state=7)
        if not np.array_equal(a, b):
            return ({"cls": cname, "clause": "override", "method": "draw_sample", "param": list(expl)[0] if expl else None},
                    "draw_sample with explicit parameters differs from an instance constructed with them")
    # ---- an explicitly passed value also wins over a value the instance holds as FIXED (f_<name>)
    if case.get("base") and expl and cname != "LogNormalNormFitDistribution":
        fixed_inst = Cls(**{("f_" + p if p in expl else p): v for p, v in case["base"].items()})
        want_inst = Cls(**merged)
        for m in ("cdf", "pdf", "icdf"):
            arg = x if m != "icdf" else np.array([0.2, 0.5, 0.8])
            a, b = np.asarray(getattr(fixed_inst, m)(arg, **expl)), np.asarray(getattr(want_inst, m)(arg))
            if not np.array_equal(a, b, equal_nan=True):
                return ({"cls": cname, "clause": "override", "method": m, "param": list(expl)[0], "fixed": True},
                        "%s with %r fixed: %s(x, %r) differs from an instance constructed with these values" % (cname, sorted(expl), m, expl))
    d = Cls(**th)
    # ---- "an instance constructed with those values": however the constructor is given them (as start value or as fixed
    # value f_<name>, every subset), the object holds them and evaluates like the plainly constructed one
    import itertools
    for r in range(1, len(ps) + 1):
        for F in itertools.combinations(ps, r):
            try:
                fi = Cls(**{("f_" + p if p in F else p): v for p, v in th.items()})
                held = {p: fi.parameters[p] for p in ps}
                vals = [np.asarray(getattr(fi, m)(arg)) for m, arg in (("cdf", x), ("pdf", x), ("icdf", np.array([0.2, 0.5, 0.8])))]
            except Exception as e:  # noqa
                return ({"cls": cname, "clause": "constructed-fixed", "exc": type(e).__name__},
                        "%s(%s) then evaluation raised %s: %s" % (cname, ", ".join("%s%s=%r" % ("f_" if p in F else "", p, th[p]) for p in ps), type(e).__name__, str(e)[:100]))
            want = [np.asarray(getattr(d, m)(arg)) for m, arg in (("cdf", x), ("pdf", x), ("icdf", np.array([0.2, 0.5, 0.8])))]
            if any(held[p] != th[p] for p in ps) or not all(np.array_equal(a, b, equal_nan=True) for a, b in zip(vals, want)):
                return ({"cls": cname, "clause": "constructed-fixed", "n_fixed": len(F)},
                        "%s(%s) holds %r and differs in cdf/pdf/icdf from %s(%r)" % (
                            cname, ", ".join("%s%s=%r" % ("f_" if p in F else "", p, th[p]) for p in ps), held, cname, th))
    # ---- argument kinds
    c_arr = np.asarray(d.cdf(x))
    c_list = np.asarray(d.cdf(list(xs)))
    c_sc = np.array([float(d.cdf(float(v))) for v in xs])
    if not (np.array_equal(c_arr, c_list) and np.allclose(c_arr, c_sc, rtol=1e-15, atol=0)):
        return ({"cls": cname, "clause": "kinds"}, "cdf differs between scalar, list and ndarray arguments")
    p_arr = np.asarray(d.pdf(x))
    p_sc = np.array([float(d.pdf(float(v))) for v in xs])
    if not np.allclose(p_arr, p_sc, rtol=1e-15, atol=0):
        return ({"cls": cname, "clause": "kinds", "method": "pdf"}, "pdf differs between scalar and ndarray arguments")
    try:
        p_list = np.asarray(d.pdf(list(xs)), dtype=float)
        i_list = np.asarray(d.icdf([0.25, 0.5, 0.75]), dtype=float)
    except Exception as e:  # noqa
        return ({"cls": cname, "clause": "kinds", "method": "list", "exc": type(e).__name__}, "pdf/icdf of a list (array_like, as documented) raised %s: %s" % (type(e).__name__, str(e)[:80]))
    if not (np.array_equal(p_list, p_arr) and np.array_equal(i_list, np.asarray(d.icdf(np.array([0.25, 0.5, 0.75]))))):
        return ({"cls": cname, "clause": "kinds", "method": "list"}, "pdf/icdf differ between list and ndarray arguments")
    # ---- integer-typed arguments (whole numbers as Python ints, lists of ints, integer ndarrays) == the same values as floats
    xi = np.unique(np.clip(np.round(x), -50, 50)).astype(int)
    if cname == "VonMisesDistribution":
        xi = np.array([-3, -1, 0, 1, 2, 3])
    xf = xi.astype(float)
    for m in ("cdf", "pdf"):
        want = np.asarray(getattr(d, m)(xf), dtype=float)
        try:
            got = {"int ndarray": np.asarray(getattr(d, m)(xi), dtype=float),
                   "list of ints": np.asarray(getattr(d, m)([int(v) for v in xi]), dtype=float),
                   "Python ints": np.array([float(getattr(d, m)(int(v))) for v in xi]),
                   "int ndarray, explicit parameters": np.asarray(getattr(base, m)(xi, **th), dtype=float)}
        except Exception as e:  # noqa
            return ({"cls": cname, "clause": "kinds", "method": m, "form": "int", "exc": type(e).__name__}, "%s of integer-typed x raised %s: %s" % (m, type(e).__name__, str(e)[:80]))
        for form, g in got.items():
            if g.shape != want.shape or not np.allclose(g, want, rtol=1e-14, atol=0, equal_nan=True):
                return ({"cls": cname, "clause": "kinds", "method": m, "form": "int"},
                        "%s(%s).%s(x) with x = %r as %s gives %r, as floats %r" % (cname, th, m, xi.tolist(), form, g.tolist(), want.tolist()))
    # ---- array-valued explicit parameters (what a conditional distribution passes): element i uses the i-th parameter values
    import random as _random
    r_ = _random.Random(int(abs(hash(repr(sorted(th.items())))) % (2 ** 31)))
    ths = [dict(th)] + [{q: (v * r_.uniform(0.8, 1.25) if v != 0 else 0.0) for q, v in th.items()} for _ in range(3)]
    xq = np.array([float(Cls(**t).icdf(0.4 + 0.1 * i)) for i, t in enumerate(ths)])
    for mixed in (False, True):
        if mixed and len(ps) < 2:
            continue
        scalar_p = ps[-1] if mixed else None       # one parameter stays a scalar, the others are vectors
        if mixed:
            ths_m = [dict(t, **{scalar_p: th[scalar_p]}) for t in ths]
            xq_m = np.array([float(Cls(**t).icdf(0.4 + 0.1 * i)) for i, t in enumerate(ths_m)])
        else:
            ths_m, xq_m = ths, xq
        kw = {q: (th[q] if q == scalar_p else np.array([t[q] for t in ths_m])) for q in ps}
        for m in ("cdf", "pdf", "icdf"):
            arg = xq_m if m != "icdf" else np.array([0.4, 0.5, 0.6, 0.7])
            want = np.array([float(getattr(Cls(**t), m)(float(a))) for t, a in zip(ths_m, arg)])
            try:
                got = np.asarray(getattr(base, m)(arg, **kw), dtype=float)
            except Exception as e:  # noqa
                return ({"cls": cname, "clause": "override", "method": m, "form": "vector-parameters", "exc": type(e).__name__},
                        "%s.%s(x, %s) with vector-valued parameters raised %s: %s" % (cname, m, {q: np.asarray(v).tolist() for q, v in kw.items()}, type(e).__name__, str(e)[:80]))
            if got.shape != want.shape or not np.allclose(got, want, rtol=1e-12, atol=0, equal_nan=True):
                return ({"cls": cname, "clause": "override", "method": m, "form": "vector-parameters"},
                        "%s.%s(x=%r, %s) = %r but instances constructed element by element give %r" % (cname, m, arg.tolist(), {q: np.asarray(v).tolist() for q, v in kw.items()}, got.tolist(), want.tolist()))
    # ---- documented formula
    doc = D.doc_cdf(cname, th, x)
    if doc is not None and not np.allclose(c_arr, doc, **tol):
        i = int(np.argmax(np.abs(c_arr - doc)))
        return ({"cls": cname, "clause": "documented", "method": "cdf"},
                "cdf(%r) = %r but the documented formula gives %r (theta=%r)" % (xs[i], float(c_arr[i]), float(doc[i]), th))
    if cname == "VonMisesDistribution":
        import scipy.stats as sts_
        mu, kappa = th["mu"], th["kappa"]
        xv = mu + np.array([-3.0, -1.0, -0.2, 0.0, 0.4, 2.0, 3.0])
        cv = np.asarray(d.cdf(xv), dtype=float)
        ref = sts_.vonmises.cdf(xv - mu, kappa)
        if not np.allclose(cv, ref, rtol=1e-9, atol=1e-12):
            return ({"cls": cname, "clause": "documented", "method": "cdf"}, "von Mises cdf(x) is not F0(x - mu; kappa): %r vs %r (mu=%r)" % (cv.tolist(), ref.tolist(), mu))
        if abs(float(d.cdf(mu)) - 0.5) > 1e-12 or abs(float(d.icdf(0.5)) - mu) > 1e-9 * max(1, abs(mu)):
            return ({"cls": cname, "clause": "roundtrip", "method": "icdf"}, "von Mises: cdf(mu) = %r, icdf(0.5) = %r for mu = %r" % (float(d.cdf(mu)), float(d.icdf(0.5)), mu))
        ok_ = (cv > 1e-6) & (cv < 1 - 1e-6)      # away from numerical saturation of the tails
        back = np.asarray(d.icdf(cv[ok_]), dtype=float)
        xv = xv[ok_]
        if not np.allclose(back, xv, rtol=1e-5, atol=1e-5):
            return ({"cls": cname, "clause": "roundtrip", "method": "icdf"}, "von Mises icdf(cdf(x)) != x on (mu-pi, mu+pi): %r -> %r" % (xv.tolist(), back.tolist()))
    # ---- monotone, range
    xs_sorted = np.sort(x)
    cs = np.asarray(d.cdf(xs_sorted))
    if cname != "VonMisesDistribution":
        if np.any(np.diff(cs) < -1e-14) or np.any(cs < 0) or np.any(cs > 1):
            return ({"cls": cname, "clause": "monotone"}, "cdf is not non-decreasing within [0,1]")
    # ---- round trips (away from saturation)
    inside = (c_arr > 1e-9) & (c_arr < 1 - 1e-9)
    if cname != "VonMisesDistribution" and inside.any():
        back = np.asarray(d.icdf(c_arr[inside]))
        if not np.allclose(back, x[inside], rtol=1e-6, atol=1e-9):
            return ({"cls": cname, "clause": "roundtrip", "method": "icdf"}, "icdf(cdf(x)) != x: %r -> %r" % (x[inside][:3].tolist(), back[:3].tolist()))
    ps_ = np.array([0.001, 0.1, 0.5, 0.9, 0.999])
    q = np.asarray(d.icdf(ps_))
    if not np.allclose(np.asarray(d.cdf(q)), ps_, rtol=1e-8, atol=1e-12):
        return ({"cls": cname, "clause": "roundtrip", "method": "cdf"}, "cdf(icdf(p)) != p")
    # ---- pdf = d cdf / dx, non-negative, zero outside the support
    if np.any(p_arr < 0):
        return ({"cls": cname, "clause": "support", "method": "pdf"}, "negative pdf")
    for xv, pv in zip(x[inside][:6], p_arr[inside][:6]):
        # mean value theorem: the difference quotient of the cdf over [x-h, x+h] is a value of its derivative on that
        # interval, so it must lie between the extreme pdf values there (the pdf is monotone on such a tiny interval)
        h = 1e-5 * max(abs(xv), 1e-2)
        if cname not in ("NormalDistribution", "VonMisesDistribution") and xv - h <= {"WeibullDistribution": th.get("gamma", 0.0)}.get(cname, 0.0):
            continue
        num = (float(d.cdf(xv + h)) - float(d.cdf(xv - h))) / (2 * h)
        grid = np.asarray(d.pdf(np.linspace(xv - h, xv + h, 9)), dtype=float)
        lo_p, hi_p = float(grid.min()), float(grid.max())
        if not (lo_p * (1 - 1e-4) - 1e-9 <= num <= hi_p * (1 + 1e-4) + 1e-9):
            return ({"cls": cname, "clause": "derivative"}, "pdf on [%r +- %r] lies in [%r, %r] but the cdf difference quotient there is %r (theta=%r)" % (float(xv), h, lo_p, hi_p, num, th))
    lo = {"WeibullDistribution": th.get("gamma", 0.0)}.get(cname, 0.0)
    if cname not in ("NormalDistribution", "VonMisesDistribution"):
        out = np.array([lo - 1.0, lo - 1e-3, lo - 1e-9])
        pz = np.asarray(d.pdf(out), dtype=float)
        cz = np.asarray(d.cdf(out), dtype=float)
        if np.any(pz != 0) or np.any(cz != 0):
            return ({"cls": cname, "clause": "support"}, "pdf/cdf not zero outside the support: %r %r" % (pz.tolist(), cz.tolist()))
    if cname == "LogNormalNormFitDistribution" and th["sigma_norm"] < th["mu_norm"]:
        a_, b_, med = float(d.icdf(1e-13)), float(d.icdf(1 - 1e-13)), float(d.icdf(0.5))
        mean = integrate.quad(lambda t: t * float(d.pdf(t)), a_, b_, limit=400, points=[med])[0]
        m2 = integrate.quad(lambda t: t * t * float(d.pdf(t)), a_, b_, limit=400, points=[med])[0]
        sd = math.sqrt(max(m2 - mean * mean, 0))
        if not (math.isclose(mean, th["mu_norm"], rel_tol=1e-5) and math.isclose(sd, th["sigma_norm"], rel_tol=1e-3)):
            return ({"cls": cname, "clause": "documented", "method": "moments"}, "mean/std %r/%r are not mu_norm/sigma_norm %r" % (mean, sd, th))
    return None


def history_oracle(case):
    """history: evaluate, fit, evaluate (and once more): after a fit the instance evaluates with the parameters it reports,
    i.e. exactly like an instance constructed with them"""
    cname, th = case["cls"], case["theta"]
    Cls = D.get_class(cname)
    # (the norm-fit log-normal's default mu_norm = 0 is not an admissible parameter vector: start from theta instead)
    inst = Cls(**th) if cname == "LogNormalNormFitDistribution" else Cls(**{"f_" + p: th[p] for p in case["fixed"]})
    x = np.array(case["xs"], dtype=float)
    pq = np.array([0.1, 0.5, 0.9])
    sig = {"cls": cname, "clause": "history-fit", "method": case["method"], "fixed": "+".join(sorted(case["fixed"]))}
    inst.cdf(x), inst.pdf(x), inst.icdf(pq)            # evaluated before the fit (whatever is cached is cached now)
    for rep, scale in enumerate((1.0, 1.7)):
        data = np.asarray(Cls(**th).draw_sample(case["n"], random_state=case["seed"] + rep), dtype=float) * (scale if cname != "VonMisesDistribution" else 1.0)
        try:
            inst.fit(data, method=case["method"], weights=case.get("weights"))
        except NotImplementedError:
            return None
        except Exception:  # noqa  (fitting itself is C11/C12/C13's subject)
            return None
        pars = {k: float(v) for k, v in inst.parameters.items()}
        if not all(np.isfinite(v) for v in pars.values()):
            return None
        fresh = Cls(**pars)
        for m, arg in (("cdf", x), ("pdf", x), ("icdf", pq)):
            a, b = np.asarray(getattr(inst, m)(arg), dtype=float), np.asarray(getattr(fresh, m)(arg), dtype=float)
            if not np.array_equal(a, b, equal_nan=True):
                return (sig, "%s(%s): after fit number %d (method %r) the instance reports %r but its %s(x) = %r, an instance constructed with these parameters gives %r"
                        % (cname, ", ".join("f_%s=%r" % (p, th[p]) for p in case["fixed"]), rep + 1, case["method"], pars, m, a.tolist()[:4], b.tolist()[:4]))
    return None


def gen_history_cases(rng, reps):
    out = []
    for cname, info in D.FAMS.items():
        ps = info["params"]
        for rep in range(reps):
            th = D.rand_params(rng, cname)
            if cname == "WeibullDistribution":
                th["gamma"] = 0.0
            if cname == "VonMisesDistribution":
                th["mu"] = rng.uniform(-2, 2)
            subsets = [[]] + [[p] for p in ps] if cname != "LogNormalNormFitDistribution" else [[]]
            for fx in subsets:
                methods = [("mle", None)]
                if cname == "ExponentiatedWeibullDistribution":
                    methods += [("wlsq", rng.choice([None, "linear", "quadratic", "cubic"])), ("lsq", None)]
                for meth, w in methods:
                    if cname == "ExponentiatedWeibullDistribution" and meth != "mle" and fx not in ([], ["delta"]):
                        continue
                    out.append({"history": True, "cls": cname, "theta": th, "fixed": fx, "method": meth, "weights": w, "n": rng.choice([60, 200]),
                                "seed": rng.randrange(10 ** 6), "xs": D.support_points(rng, cname, th, 5)})
    return out


def gen_case(rng):
    cname = rng.choice(list(D.FAMS))
    ps = D.FAMS[cname]["params"]
    th = D.rand_params(rng, cname)
    base = D.rand_params(rng, cname)
    other = D.rand_params(rng, cname)
    if cname == "WeibullDistribution" and rng.random() < 0.35:   # a location below zero: the support starts at gamma, not at the origin
        for t_ in (th, base, other):
            if rng.random() < 0.7:
                t_["gamma"] = -rng.uniform(0.1, 4.0)
    if cname == "LogNormalNormFitDistribution":
        expl = dict(other) if rng.random() < 0.8 else {}
    else:
        k = rng.randrange(0, len(ps) + 1)
        expl = {p: other[p] for p in rng.sample(ps, k)}
    xs = D.support_points(rng, cname, th, 8)
    return {"cls": cname, "theta": th, "base": base, "explicit": expl, "xs": xs}


def replay(ctx, case):
    if case.get("kind") == "translator":
        print("  translator/correspondence mismatch recorded:", case.get("what"))
        return True
    o = history_oracle(case) if case.get("history") else oracle(case)
    if o:
        print("  ", o[1])
    return o is not None


def run(ctx):
    ctx.proof_gate()
    ncmp, mism, extra = D.translator_validation(ctx, ctx.n(400, 4000))
    ctx.cov["programs"] = 7 * 7
    ctx.notes["translator_validation"] = dict(compared=ncmp, mismatches=len(mism), **extra)
    for m in mism[:5]:
        ctx.mismatch("generated %s.%s" % (m.get("case", {}).get("cls"), m.get("case", {}).get("method")), m["what"])
    sd_bad = D.scipydist_correspondence(ctx, ctx.n(150, 1500), parts=("params",))
    ctx.notes["scipydist_correspondence"] = {"mismatches": len(sd_bad)}
    for b in sd_bad[:5]:
        ctx.mismatch("ScipyDistribution hand model", b["what"] + " (case %r)" % {k: v for k, v in b.items() if k not in ("what",)})
    rng = ctx.rng
    n = ctx.n(400, 6000)
    dist = {}
    found = 0
    suspects = []
    for m in mism[:20]:
        c = m.get("case")
        if c and c.get("given") is not None:
            suspects.append({"cls": c["cls"], "theta": c["theta"], "base": c["theta"],
                             "explicit": {p: v for p, v in c["given"].items() if v is not None}, "xs": [0.5, 1.0, 2.0]})
    cases = suspects + [gen_case(rng) for _ in range(n)]
    # every single-parameter override of every family (exhaustive over parameters)
    for cname, info in D.FAMS.items():
        if cname == "LogNormalNormFitDistribution":
            continue
        for p in info["params"]:
            base, other = D.rand_params(rng, cname), D.rand_params(rng, cname)
            cases.append({"cls": cname, "theta": base, "base": base, "explicit": {p: other[p]}, "xs": D.support_points(rng, cname, base, 5)})
    for c in cases:
        dist[c["cls"]] = dist.get(c["cls"], 0) + 1
        ctx.count((c["cls"], tuple(sorted(c["theta"].items())), tuple(sorted(c["explicit"].items()))), bool(c["explicit"]))
        try:
            o = oracle(c)
        except Exception as e:  # noqa
            o = ({"cls": c["cls"], "clause": "exception", "exc": type(e).__name__}, "evaluation raised %s: %s" % (type(e).__name__, e))
        if o is not None:
            if ctx.violation(o[0], o[1], c):
                found += 1
                if found >= 8:
                    break
    hcases = gen_history_cases(rng, ctx.n(1, 4))
    for c in hcases:
        ctx.count(("history", c["cls"], tuple(c["fixed"]), c["method"], c["seed"]), True)
        try:
            o = history_oracle(c)
        except Exception as e:  # noqa
            o = ({"cls": c["cls"], "clause": "exception", "exc": type(e).__name__}, "history raised %s: %s" % (type(e).__name__, e))
        if o is not None and ctx.violation(o[0], o[1], c):
            break
    ctx.notes["history_cases"] = len(hcases)
    # ScipyDistribution subclasses: every single-parameter override, by keyword and by position, zero values included
    try:
        import scipy.stats as sts_
        dm = D.dist_module()
        subs = []
        for nm, base, alt in (("gamma", {"a": 2.5, "loc": 1.5, "scale": 2.0}, {"a": 1.7, "loc": 0.0, "scale": 0.7}),
                              ("gumbel_r", {"loc": 1.0, "scale": 2.0}, {"loc": 0.0, "scale": 0.5}),
                              ("norm", {"loc": 3.0, "scale": 1.5}, {"loc": -1.0, "scale": 0.7}),          # families without a shape parameter
                              ("rayleigh", {"loc": 0.5, "scale": 2.0}, {"loc": 0.0, "scale": 3.0}),
                              ("gengamma", {"a": 2.0, "c": 1.5, "loc": 0.2, "scale": 2.0}, {"a": 1.2, "c": 2.5, "loc": 0.0, "scale": 1.1}),
                              ("weibull_min", {"c": 1.5, "loc": 0.3, "scale": 2.0}, {"c": 2.2, "loc": 0, "scale": 3.0})):
            Cls = type("My_" + nm, (dm.ScipyDistribution,), {"scipy_dist_name": nm})
            names = list(base)
            inst = Cls(**base)
            if list(inst.parameters) != names or [float(inst.parameters[k]) for k in names] != [float(base[k]) for k in names]:
                ctx.violation({"cls": "ScipyDistribution", "clause": "parameters", "family": nm},
                              "ScipyDistribution(%s)(%s).parameters = %r" % (nm, ", ".join("%s=%r" % kv for kv in base.items()), dict(inst.parameters)),
                              {"cls": "ScipyDistribution", "family": nm, "ctor": base})
                continue
            xs = np.array([2.0, 3.5, 6.0])
            for i, pn in enumerate(names):
                want = getattr(sts_, nm)
                theta = dict(base, **{pn: alt[pn]})
                for m, sm in (("cdf", "cdf"), ("pdf", "pdf"), ("icdf", "ppf")):
                    arg = xs if m != "icdf" else np.array([0.2, 0.5, 0.9])
                    ref = getattr(want, sm)(arg, *[theta[k] for k in names])
                    by_kw = getattr(inst, m)(arg, **{pn: alt[pn]})
                    by_pos = getattr(inst, m)(arg, *([None] * i + [alt[pn]]))
                    by_inst = getattr(Cls(**theta), m)(arg)
                    ctx.count(("scipydist", nm, pn, m), True)
                    for how, val in (("keyword", by_kw), ("positional", by_pos), ("constructed", by_inst)):
                        if not np.allclose(val, ref, rtol=1e-12, atol=0, equal_nan=True):
                            ctx.violation({"cls": "ScipyDistribution", "clause": "override", "method": m, "how": how},
                                          "ScipyDistribution(%s) %s with %s=%r given by %s: %r, expected %r" % (nm, m, pn, alt[pn], how, np.asarray(val).tolist(), np.asarray(ref).tolist()),
                                          {"cls": "ScipyDistribution", "family": nm, "param": pn, "how": how})
    except Exception as e:  # noqa
        ctx.violation({"cls": "ScipyDistribution", "clause": "exception"}, "ScipyDistribution subclass raised %r" % e, {"cls": "ScipyDistribution"})
    ctx.notes["input_distribution"] = dist
    ctx.sample(cases[len(suspects)])
    ctx.sample(cases[-1])
    ctx.cov["rule"] = ("random instances of the 7 families (parameters log-uniform over 2-3 decades), random explicit-parameter subsets plus every single-parameter override; "
                       "8 support points each; non-trivial = at least one explicit parameter; distinct = (class, theta, explicit)")
    ctx.cov["trusted_base"] = ["Coq kernel + vm_compute", "tools/py2v.py (validated here by differential execution of its binary64 instance)",
                               "scipy.stats contract (documented standard cdfs, loc/scale convention) as Section hypotheses",
                               "recording proxies for virocon.distributions.{sts,np,math}"]
    ctx.assumptions += ["scipy.stats evaluates F0((x-loc)/scale; shapes)", "binary64 rounding vs exact reals not bounded"]
