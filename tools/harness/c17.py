"""C17 -- design conditions lie on the contour at the requested abscissa, top ordinate; the
intersection routine returns exactly the crossing points (DESIGN.md section 6, C17).

proof gate: props/C17.v (theorems over R about the generic model model/Intersection.v)
correspondence: the SAME generic model instantiated with Coq's exact rationals (QArith), fed with the
    exact rational values of the binary64 inputs, evaluated by vm_compute and compared with
    virocon.utils.calculate_design_conditions / virocon._intersection.intersection to 1e-9 (of the
    coordinate scale); abscissae columns, lengths and order exactly.
search: property oracle in exact rational arithmetic (Python fractions) against the real functions.

The model is the code AS REPAIRED (fixes/C17-*.patch): no `assert len(x) <= 2`, probe segment extended
by a tenth of max(|min y|, |max y|) instead of a tenth of max y (negative for negative ordinates).  On the unrepaired tree both defects are reported with a concrete,
shrunk input.
"""
import math
from fractions import Fraction as Fr

import numpy as np

import vlib
from vlib import qlit

TOL = Fr(1, 10 ** 9)


def _imp():
    import virocon.utils as vu
    import virocon._intersection as vi
    return vu, vi


class _Contour:
    """calculate_design_conditions reads nothing but `.coordinates`"""
    def __init__(self, coords, dtype="float"):
        self.coordinates = np.array(coords, dtype=float).reshape(-1, 2)
        if dtype == "int":      # whole-number coordinates stored in an integer array
            self.coordinates = self.coordinates.astype(np.int64)


# ------------------------------------------------------------------ exact reference (fractions)
def fr_pts(pts):
    return [(Fr(float(x)), Fr(float(y))) for x, y in pts]


def segs(pts):
    return list(zip(pts[:-1], pts[1:]))


def exact_pair(s1, s2):
    (ax, ay), (bx, by) = s1
    (cx, cy), (dx, dy) = s2
    dx1, dy1, dx2, dy2 = bx - ax, by - ay, dx - cx, dy - cy
    D = dx2 * dy1 - dx1 * dy2
    if D == 0:
        return None
    t = (dx2 * (cy - ay) - dy2 * (cx - ax)) / D
    u = (dx1 * (cy - ay) - dy1 * (cx - ax)) / D
    return t, u, (ax + t * dx1, ay + t * dy1), D


def scale_of(*ptlists):
    m = Fr(0)
    for pts in ptlists:
        for x, y in pts:
            m = max(m, abs(x), abs(y))
    return m if m > 0 else Fr(1)


def exact_intersections(c1, c2, delicate_margin=Fr(1, 10 ** 7)):
    """row-major list of crossing points; `delicate` when a float evaluation may legitimately decide a
    candidate differently (parameter within 1e-7 of 0/1, nearly parallel, collinear overlap)"""
    hits, delicate = [], False
    for s1 in segs(c1):
        for s2 in segs(c2):
            r = exact_pair(s1, s2)
            (ax, ay), (bx, by) = s1
            (cx, cy), (dx, dy) = s2
            if r is None:
                # parallel: collinear and overlapping bounding boxes is outside "general position"
                l1 = abs(bx - ax) + abs(by - ay)
                l2 = abs(dx - cx) + abs(dy - cy)
                if l1 > 0 and l2 > 0:
                    cross = (cx - ax) * (by - ay) - (cy - ay) * (bx - ax)
                    if cross == 0 and min(ax, bx) <= max(cx, dx) and min(cx, dx) <= max(ax, bx) \
                            and min(ay, by) <= max(cy, dy) and min(cy, dy) <= max(ay, by):
                        delicate = True
                continue
            t, u, p, D = r
            n1 = abs(bx - ax) + abs(by - ay)
            n2 = abs(dx - cx) + abs(dy - cy)
            near = all(-delicate_margin <= v <= 1 + delicate_margin for v in (t, u))
            if near:
                if min(abs(t), abs(1 - t), abs(u), abs(1 - u)) < delicate_margin:
                    delicate = True
                if abs(D) < Fr(1, 10 ** 6) * n1 * n2:
                    delicate = True
            if 0 <= t <= 1 and 0 <= u <= 1:
                hits.append(p)
    return hits, delicate


def proj(swap, pts):
    return [(y, x) for x, y in pts] if swap else list(pts)


def exact_linspace(lo, hi, n):
    if n == 0:
        return []
    if n == 1:
        return [lo]
    return [lo + i * ((hi - lo) / (n - 1)) for i in range(n)]


def crossings_at(cl, x2):
    """exact ordinates where the vertical line at x2 meets non-vertical edges (closed segments);
    `vert`: ordinates contributed by vertical edges lying on the line (outside general position);
    `tangent`: the line touches a vertex without crossing there; `steep`: an edge steeper than 1e5;
    `inner`: the ordinates of hits strictly inside an edge (0 < t < 1) -- a hit AT a vertex (t = 0 or 1)
    is decided by the last bit of the LAPACK solution and may legitimately be missed in binary64"""
    ys, vert, tangent, steep, inner = [], [], False, False, []
    for (ax, ay), (bx, by) in segs(cl):
        if ax == bx:
            if ax == x2:
                vert += [ay, by]
            continue
        t = (x2 - ax) / (bx - ax)
        if 0 <= t <= 1:
            ys.append(ay + t * (by - ay))
            if 0 < t < 1:
                inner.append(ay + t * (by - ay))
            if abs(by - ay) > 10 ** 5 * abs(bx - ax):
                steep = True
    n = len(cl) - 1  # closed: cl[n] == cl[0]
    for i in range(n):
        if cl[i][0] == x2:
            j = (i - 1) % n
            k = (i + 1) % n
            guard = 0
            while cl[j][0] == x2 and guard < n:
                j = (j - 1) % n
                guard += 1
            guard = 0
            while cl[k][0] == x2 and guard < n:
                k = (k + 1) % n
                guard += 1
            if (cl[j][0] - x2) * (cl[k][0] - x2) >= 0:
                tangent = True
    return ys, vert, tangent, steep, inner


def steps_object(case):
    """the `steps` argument as the caller passes it: None, an int, or the abscissae in the container
    named by case["steps_type"] (list / tuple / range / ndarray; Python ints stay ints)"""
    st = case["steps"]
    if st is None or isinstance(st, int):
        return st
    ty = case.get("steps_type", "list")
    if ty == "tuple":
        return tuple(st)
    if ty == "iterator":
        return iter(list(st))
    if ty == "ndarray":
        return np.array(st)          # dtype int64 when every abscissa is an int
    if ty == "range" and len(st) >= 2 and all(isinstance(v, int) for v in st) and st[1] != st[0] \
            and all(b - a == st[1] - st[0] for a, b in zip(st, st[1:])):
        d = st[1] - st[0]
        return range(st[0], st[-1] + (1 if d > 0 else -1), d)
    return list(st)


def run_dc(vu, case):
    c = case.get("contour") or _Contour(case["coords"], case.get("coords_dtype", "float"))
    steps = steps_object(case)
    try:
        res = vu.calculate_design_conditions(c, steps=steps, swap_axis=case["swap"])
    except AssertionError:
        return {"err": "AssertionError"}
    except Exception as e:  # noqa
        return {"err": type(e).__name__}
    res = np.asarray(res, dtype=float)
    if res.size == 0:
        return {"rows": []}
    return {"rows": [(float(a), float(b)) for a, b in res.reshape(-1, 2)]}


def dc_reference(case):
    """exact expected abscissae, per-abscissa analysis"""
    pts = proj(case["swap"], fr_pts(case["coords"]))
    cl = pts + [pts[0]]
    xs = [p[0] for p in cl]
    ysv = [p[1] for p in cl]
    xmin, xmax = min(xs), max(xs)
    sp = Fr(1, 10000) * (xmax - xmin)
    lo, hi = xmin + sp, xmax - sp
    st = case["steps"]
    if st is None:
        absc, exact_list = exact_linspace(lo, hi, 10), False
    elif isinstance(st, int):
        absc, exact_list = exact_linspace(lo, hi, st), False
    else:
        absc, exact_list = [Fr(float(v)) for v in st], True
    return cl, absc, exact_list, scale_of(cl), (min(ysv), max(ysv))


def oracle_dc(vu, case, res=None):
    """None if the property holds on this case, else (signature, message).  Second value: notes dict."""
    info = {"unjudgeable_abscissae": 0, "hits": []}
    if res is None:
        res = run_dc(vu, case)
    cl, absc, exact_list, scale, (ymin, ymax) = dc_reference(case)
    tol = TOL * scale
    base = {"function": "calculate_design_conditions"}
    if "err" in res:
        cls = "more-than-two-hits" if res["err"] == "AssertionError" else "other"
        worst = 0
        for x2 in absc:
            ys, vert, tangent, steep, inner = crossings_at(cl, x2)
            worst = max(worst, len(ys))
        return dict(base, clause="raises", exception=res["err"], input_class=cls), \
            "calculate_design_conditions raises %s (up to %d hits of one vertical line with the polygon edges)" % (res["err"], worst), info
    rows = res["rows"]
    if ymin == 0 and ymax == 0:
        info["flat_on_axis"] = True   # outside the hypothesis of the theorems (degenerate probe segment)
        return None, None, info
    k = 0
    vertex_violation = None
    delicate_margin = Fr(1, 10 ** 7) * scale
    for i, x2 in enumerate(absc):
        matched = False
        if k < len(rows):
            rx = Fr(rows[k][0])
            matched = (rx == x2) if exact_list else (abs(rx - x2) <= tol)
        xe = Fr(rows[k][0]) if matched else x2
        ys, vert, tangent, steep, inner = crossings_at(cl, xe)
        near_vertex = any(0 < abs(p[0] - xe) < delicate_margin for p in cl)
        top = max(ys) if ys else None
        top_inner = max(inner) if inner else None
        at_vertex = top is not None and (top_inner is None or top_inner < top)   # the top hit is a vertex hit
        delicate = tangent or steep or near_vertex or (vert and (top is None or max(vert) > top))
        info["hits"].append(len(ys))
        if len(ys) != len(inner):
            info["vertex_abscissae"] = info.get("vertex_abscissae", 0) + 1
        if delicate:
            info["unjudgeable_abscissae"] += 1
        if matched:
            ry = Fr(rows[k][1])
            k += 1
            if top is None:
                if not delicate:
                    return dict(base, clause="not-on-contour"), \
                        "abscissa %r is returned with ordinate %r but the vertical line there crosses no edge" % (float(xe), float(ry)), info
                continue
            if abs(ry - top) > tol:
                on_contour = any(abs(ry - y) <= tol for y in ys + vert)
                if ry > top + tol or not on_contour:
                    if not delicate:
                        return dict(base, clause="not-on-contour"), \
                            "design condition (%r, %r) is not on the polygon (crossings at %s)" % (float(xe), float(ry), [float(y) for y in sorted(ys)]), info
                elif at_vertex and (top_inner is None or ry >= top_inner - tol):
                    # the top crossing is exactly at a vertex of the contour and was missed (the 4x4 solve gave
                    # t = 1 + eps on one adjacent edge and t = -eps on the other); everything else is right
                    info["vertex_top_missed"] = info.get("vertex_top_missed", 0) + 1
                    if not delicate and vertex_violation is None:
                        vertex_violation = (dict(base, clause="top-ordinate", vertex_hit=True),
                                            "the abscissa %r is exactly the abscissa of a (non-extreme) contour vertex; the design condition has ordinate %r, "
                                            "the largest crossing ordinate is that vertex's %r (crossings %s)" % (float(xe), float(ry), float(top), [float(y) for y in sorted(ys)]))
                elif not delicate:
                    cls = "max-ordinate-negative" if ymax < 0 else "other"
                    return dict(base, clause="top-ordinate", input_class=cls), \
                        "design condition at abscissa %r has ordinate %r, the largest crossing ordinate is %r (crossings %s)" % (
                            float(xe), float(ry), float(top), [float(y) for y in sorted(ys)]), info
        else:
            if top is not None and not delicate:
                if top_inner is None:
                    info["vertex_top_missed"] = info.get("vertex_top_missed", 0) + 1
                    if vertex_violation is None:
                        vertex_violation = (dict(base, clause="omitted", vertex_hit=True),
                                            "the abscissa %r is exactly the abscissa of a (non-extreme) contour vertex and meets the contour only there "
                                            "(ordinates %s) but is omitted" % (float(xe), [float(y) for y in sorted(ys)]))
                    continue
                cls = "max-ordinate-negative" if ymax < 0 else "other"
                return dict(base, clause="omitted", input_class=cls), \
                    "abscissa %r crosses the contour (ordinates %s) but is omitted" % (float(xe), [float(y) for y in sorted(ys)]), info
    if k != len(rows):
        return dict(base, clause="abscissa"), \
            "row %d of the result has abscissa %r which is not the next requested abscissa (%d requested, %d returned)" % (
                k, rows[k][0], len(absc), len(rows)), info
    # swap_axis == exchanging the columns (same float operations: compared exactly)
    sw = {"coords": [[y, x] for x, y in case["coords"]], "steps": case["steps"], "swap": not case["swap"],
          "steps_type": case.get("steps_type", "list"), "coords_dtype": case.get("coords_dtype", "float")}
    r2 = run_dc(vu, sw)
    if r2 != res:
        return dict(base, clause="swap-axis"), "swap_axis=%r differs from exchanging the coordinate columns" % case["swap"], info
    st = case["steps"]
    plain = {k: v for k, v in case.items() if k != "contour"}
    if isinstance(st, list) and 2 <= len(st) <= 6:
        # every abscissa is treated on its own: any order, duplicates, neighbours make no difference
        parts = []
        for v in st:
            r1 = run_dc(vu, dict(plain, steps=[v], steps_type="list"))
            parts += r1.get("rows", [("err", r1.get("err"))])
        if parts != rows:
            return dict(base, clause="pointwise"), "the result for the list %r is not the concatenation of the results for its single abscissae" % (st,), info
    if (st is None or isinstance(st, int)) and len(rows) == (10 if st is None else st) and rows:
        # an int count (or None) is the same as passing the abscissae it stands for
        r4 = run_dc(vu, dict(plain, steps=[r[0] for r in rows], steps_type="list"))
        if r4 != res:
            return dict(base, clause="count-vs-list"), "steps=%r and the explicit list of the abscissae it produced give different design conditions" % (st,), info
    if isinstance(st, list) and (case.get("steps_type", "list") != "list" or any(isinstance(v, int) for v in st)):
        r3 = run_dc(vu, dict(plain, steps=[float(v) for v in st], steps_type="list"))
        if r3 != res:
            return dict(base, clause="steps-type"), "abscissae given as %s of %s give other numbers than the same abscissae as a list of floats" % (
                case.get("steps_type", "list"), "ints" if all(isinstance(v, int) for v in st) else "ints and floats"), info
    if vertex_violation is not None:
        return vertex_violation[0], vertex_violation[1], info
    return None, None, info


def run_ix(vi, case):
    c1, c2 = np.array(case["c1"], float), np.array(case["c2"], float)
    try:
        x, y = vi.intersection(c1[:, 0], c1[:, 1], c2[:, 0], c2[:, 1])
    except Exception as e:  # noqa
        return {"err": type(e).__name__}
    return {"rows": [(float(a), float(b)) for a, b in zip(x, y)]}


def oracle_ix(vi, case, res=None):
    info = {}
    if res is None:
        res = run_ix(vi, case)
    c1, c2 = fr_pts(case["c1"]), fr_pts(case["c2"])
    hits, delicate = exact_intersections(c1, c2)
    info["delicate"] = delicate
    info["hits"] = len(hits)
    base = {"function": "intersection"}
    if "err" in res:
        return dict(base, clause="raises", exception=res["err"]), "intersection raises %s" % res["err"], info
    if delicate:
        return None, None, info
    tol = TOL * scale_of(c1, c2)
    rows = res["rows"]
    if len(rows) != len(hits):
        return dict(base, clause="count"), "%d crossing points, %d returned" % (len(hits), len(rows)), info
    for k, ((rx, ry), (ex, ey)) in enumerate(zip(rows, hits)):
        if abs(Fr(rx) - ex) > tol or abs(Fr(ry) - ey) > tol:
            return dict(base, clause="point"), "returned point %d (%r, %r) is not the crossing point (%r, %r)" % (k, rx, ry, float(ex), float(ey)), info
    return None, None, info


# ------------------------------------------------------------------ generators
def star_polygon(rng, n=None, convex=False, where=None, decimals=None):
    n = n or rng.choice([3, 4, 5, 6, 8, 12, 20, 40])
    where = where or rng.choice(["pos", "pos", "pos", "mixed", "neg", "xneg"])
    R = rng.choice([1.0, 3.0, 10.0, 0.05])
    a0 = rng.uniform(0, 2 * math.pi)
    angs = sorted(a0 + rng.uniform(0, 2 * math.pi) for _ in range(n)) if not convex else [a0 + 2 * math.pi * i / n for i in range(n)]
    ex, ey = rng.uniform(0.5, 2), rng.uniform(0.5, 2)
    cx = {"pos": 3 * R, "mixed": 0.3 * R, "neg": rng.uniform(-2, 2) * R, "xneg": -3 * R}[where] * ex
    cy = {"pos": 3 * R, "mixed": -0.2 * R, "neg": -4 * R, "xneg": 3 * R}[where] * ey
    pts = []
    for a in angs:
        r = R * (1.0 if convex else rng.uniform(0.25, 1.0))
        pts.append([cx + ex * r * math.cos(a), cy + ey * r * math.sin(a)])
    if rng.random() < 0.5:
        pts.reverse()
    if decimals is not None:
        pts = [[round(x, decimals), round(y, decimals)] for x, y in pts]
    return pts


def random_model(rng):
    import virocon as v

    a, b, c = rng.uniform(0.05, 0.6), rng.uniform(0.8, 1.8), rng.uniform(0.1, 0.4)
    sa, sb, sc = rng.uniform(0.02, 0.08), rng.uniform(0.1, 0.25), rng.uniform(-0.4, -0.1)

    def _power3(x, a=a, b=b, c=c):
        return a + b * x ** c

    def _exp3(x, a=sa, b=sb, c=sc):
        return a + b * np.exp(c * x)

    bounds = [(0, None), (0, None), (None, None)]
    d0 = {"distribution": v.WeibullDistribution(alpha=rng.uniform(1.5, 3.5), beta=rng.uniform(1.1, 2.2), gamma=rng.uniform(0.0, 1.2))}
    d1 = {"distribution": v.LogNormalDistribution(), "conditional_on": 0,
          "parameters": {"mu": v.DependenceFunction(_power3, bounds), "sigma": v.DependenceFunction(_exp3, bounds)}}
    return v.GlobalHierarchicalModel([d0, d1])


def multimodal_model(rng):
    """second variable jumps at a threshold of the first: the highest-density region falls apart"""
    import virocon as v
    t, lo, hi = rng.uniform(1.5, 2.5), rng.uniform(0.2, 0.6), rng.uniform(1.2, 2.0)

    def _step(x, a=lo, b=hi, c=t):
        return np.where(np.asarray(x) < c, a, b)

    def _const(x, a=rng.uniform(0.05, 0.12)):
        return a + 0 * np.asarray(x)

    d0 = {"distribution": v.WeibullDistribution(alpha=rng.uniform(2.0, 3.5), beta=rng.uniform(1.8, 3.0), gamma=0.0)}
    d1 = {"distribution": v.LogNormalDistribution(), "conditional_on": 0,
          "parameters": {"mu": v.DependenceFunction(_step), "sigma": v.DependenceFunction(_const)}}
    return v.GlobalHierarchicalModel([d0, d1])


REAL_KINDS = ["IFORM", "ISORM", "DirectSampling", "And", "Or", "HDC", "HDC-multi"]


def real_contour(ctx, rng, k):
    import virocon as v
    try:
        return _real_contour(ctx, rng, k)
    except Exception as e:  # noqa  (building the contour is not the subject of this property)
        d = ctx.notes.setdefault("contour_constructions_that_raised", {})
        d[type(e).__name__] = d.get(type(e).__name__, 0) + 1
        c = v.IFORMContour(random_model(rng), 0.01, n_points=12)
        return "IFORM", [[float(x), float(y)] for x, y in c.coordinates], c


def _real_contour(ctx, rng, k):
    """(kind, coordinates, contour object or None): a contour of every class for a random 2-D model"""
    import virocon as v
    kind = REAL_KINDS[k % len(REAL_KINDS)] if rng.random() < 0.7 else rng.choice(REAL_KINDS[:3])
    m = multimodal_model(rng) if kind == "HDC-multi" else random_model(rng)
    alpha = 10 ** rng.uniform(-4, -1)
    if kind == "IFORM":
        c = v.IFORMContour(m, alpha, n_points=rng.choice([7, 12, 30, 60, 180]))
    elif kind == "ISORM":
        c = v.ISORMContour(m, alpha, n_points=rng.choice([7, 12, 30, 60, 180]))
    elif kind == "HDC":
        c = v.HighestDensityContour(m, max(alpha, 1e-3), limits=[(0, rng.choice([16, 20])), (0, rng.choice([24, 30]))],
                                    deltas=[rng.choice([0.5, 0.8]), rng.choice([0.5, 1.0])])
    elif kind == "HDC-multi":
        c = v.HighestDensityContour(m, rng.choice([0.05, 0.1, 0.2]), limits=[(0, 8), (0, 12)], deltas=[0.25, 0.25])
    else:
        sample = m.draw_sample(rng.choice([2000, 5000]), random_state=ctx.np_rng(1000 + k))
        if kind == "DirectSampling":
            c = v.DirectSamplingContour(m, max(alpha, 0.01), sample=sample, deg_step=rng.choice([5, 10, 20, 30]))
        elif kind == "And":
            c = v.AndContour(m, max(alpha, 0.02), deg_step=rng.choice([3, 6, 10]), sample=sample, allowed_error=0.05)
        else:
            c = v.OrContour(m, max(alpha, 0.02), deg_step=rng.choice([3, 6, 10]), sample=sample, allowed_error=0.05)
    co = c.coordinates
    if isinstance(co, np.ndarray) and co.ndim == 2 and co.dtype != object:
        return kind, [[float(x), float(y)] for x, y in co], c
    if isinstance(co, list):
        # several disconnected regions: `coordinates` is a list of [x-array, y-array] parts, not ONE closed
        # contour; the function is not defined for it (recorded), each part is used as a polygon of its own
        try:
            v.calculate_design_conditions(c)
            what = "returns"
        except Exception as e:  # noqa
            what = type(e).__name__
        d = ctx.notes.setdefault("multi_region_contours", {})
        d[what] = d.get(what, 0) + 1
        part = rng.choice(co)
        pts = [[float(x), float(y)] for x, y in zip(part[0], part[1])]
        if len(pts) >= 3:
            return "HDC-region", pts[:120], None
    return "IFORM", [[float(x), float(y)] for x, y in v.IFORMContour(random_model(rng), 0.01, n_points=12).coordinates], None


def dup_vertices_polygon(rng):
    """consecutive duplicates (zero-length edges), explicitly repeated first vertex, all of them at once"""
    pts = star_polygon(rng, n=rng.choice([3, 4, 5, 6, 8, 12]))
    out = []
    for p in pts:
        out.append(list(p))
        while rng.random() < 0.3:
            out.append(list(p))
    if rng.random() < 0.35 and len(out) >= 4:
        # the polygon comes back to an earlier vertex later on (pinched / figure-eight contour)
        i = rng.randrange(0, len(out) - 2)
        j = rng.randrange(i + 2, len(out) + 1)
        out.insert(j, list(out[i]))
    r = rng.random()
    if r < 0.4:
        out.append(list(out[0]))            # closed explicitly
    elif r < 0.5:
        out = [list(out[0])] + out          # first vertex twice
    return out


def gen_steps(rng, coords, swap, vertex_stream):
    xs = [p[1] if swap else p[0] for p in coords]
    lo, hi = min(xs), max(xs)
    w = (hi - lo) or 1.0
    r = rng.random()
    if vertex_stream:
        k = rng.randrange(1, 4)
        out = [rng.choice(xs) for _ in range(k)] + [rng.uniform(lo, hi) for _ in range(rng.randrange(0, 3))]
        rng.shuffle(out)
        return out
    if r < 0.2:
        return None
    if r < 0.45:
        return rng.choice([1, 2, 3, 5, 7, 10, 20, 25, 0])
    if r < 0.48:
        return []
    if r < 0.56:    # strictly descending / ascending explicit lists over and beyond the extent
        out = sorted(rng.uniform(lo - 0.2 * w, hi + 0.2 * w) for _ in range(rng.randrange(2, 7)))
        return out[::-1] if rng.random() < 0.6 else out
    n = rng.randrange(1, 9)
    mode = rng.choice(["inside", "inside", "mixed", "outside", "dup", "edge-band", "edge-band", "integers", "integers"])
    if mode == "edge-band":
        # inside the contour's extent but within 1e-4 of it from either end (outside the DEFAULT abscissae range)
        out = []
        for _ in range(rng.randrange(1, 4)):
            f = rng.choice([1e-5, 2e-5, 5e-5, 8e-5, 3e-5])
            out.append(lo + f * w if rng.random() < 0.5 else hi - f * w)
        out += [rng.uniform(lo + 1e-3 * w, hi - 1e-3 * w) for _ in range(rng.randrange(0, 3))]
        rng.shuffle(out)
        return out
    if mode == "integers":
        a, b = math.floor(lo) - 1, math.ceil(hi) + 1
        if rng.random() < 0.4 and b - a >= 3:
            d = rng.choice([1, 1, 2, 3])
            out = list(range(a + rng.randrange(0, 2), b + 1, d))[:12]
        else:
            out = [rng.randrange(a, b + 1) for _ in range(n)]
        r2 = rng.random()
        if r2 < 0.2:      # whole numbers as floats
            out = [float(v) for v in out]
        elif r2 < 0.4:    # ints and floats mixed
            out = [v if rng.random() < 0.5 else rng.choice([float(v), v + 0.5]) for v in out]
        return out
    if mode == "inside":
        out = [rng.uniform(lo + 1e-3 * w, hi - 1e-3 * w) for _ in range(n)]
    elif mode == "mixed":
        out = [rng.uniform(lo - 0.5 * w, hi + 0.5 * w) for _ in range(n)]
    elif mode == "outside":
        out = [rng.choice([lo - rng.uniform(0.01, 1) * w, hi + rng.uniform(0.01, 1) * w]) for _ in range(n)]
    else:
        v = rng.uniform(lo, hi)
        out = [v, rng.uniform(lo - w, hi + w), v]
    if rng.random() < 0.3:
        out = [round(v, 2) for v in out]
    if rng.random() < 0.5:
        out.sort()
    return out


def tie_closing_polygon(rng):
    """first and last vertex share exactly ONE coordinate and the closing edge last -> first is the
    upper boundary (axis 1, seen with swap_axis=False) or the right boundary (axis 0, the upper one
    with swap_axis=True): the closing edge is then the only edge carrying the top ordinate"""
    pts = star_polygon(rng, n=rng.choice([4, 5, 6, 8, 12]))
    r = rng.randrange(len(pts))
    pts = pts[r:] + pts[:r]
    axis = rng.choice([0, 1])
    vals = [p[axis] for p in pts]
    ext = (max(vals) - min(vals)) or 1.0
    v = max(vals) + rng.uniform(0.05, 0.6) * ext if rng.random() < 0.8 else rng.uniform(min(vals), max(vals))
    if rng.random() < 0.3:
        v = round(v, 1)
    pts[0][axis] = v
    pts[-1][axis] = v
    other = 1 - axis
    if pts[0][other] == pts[-1][other]:
        pts[-1][other] += 0.25 * ext
    swap = (axis == 0) if rng.random() < 0.8 else (rng.random() < 0.5)
    lo, hi = sorted([pts[0][other], pts[-1][other]])
    r2 = rng.random()
    if r2 < 0.2:
        steps = None
    elif r2 < 0.35:
        steps = rng.choice([3, 5, 10, 20])
    else:
        steps = sorted(rng.uniform(lo + 0.02 * (hi - lo), hi - 0.02 * (hi - lo)) for _ in range(rng.randrange(1, 4)))
        if rng.random() < 0.4:
            allv = [p[other] for p in pts]
            steps.append(rng.uniform(min(allv), max(allv)))
    return pts, swap, steps


def rectilinear_polygon(rng):
    """staircase / U-shaped polygons on a common grid: vertical AND horizontal edges, so that a
    requested abscissa can sit exactly on an interior vertical edge (an exactly parallel candidate pair
    with overlapping boxes) while other edges are crossed in their interior"""
    if rng.random() < 0.7:
        k = rng.randrange(2, 5)
        ws = sorted(rng.sample(range(1, 9), k - 1), reverse=True)
        W = ws[0] + rng.randrange(1, 4)
        hs = sorted(rng.sample(range(1, 9), k))
        pts = [[0, 0], [W, 0], [W, hs[0]]]
        for i, w in enumerate(ws):
            pts += [[w, hs[i]], [w, hs[i + 1]]]
        pts.append([0, hs[-1]])
    else:
        c, e, a = sorted(rng.sample(range(1, 10), 3))
        a += 1
        b, d = sorted(rng.sample(range(1, 8), 2))
        pts = [[0, 0], [a, 0], [a, d], [e, d], [e, b], [c, b], [c, d], [0, d]]
    sc = rng.choice([1.0, 0.5, 0.25, 2.0])
    ox, oy = rng.choice([0, 0, 3, -2, -20]), rng.choice([0, 0, 1, 5, -3, -30])
    if rng.random() < 0.3:
        pts = [[y, x] for x, y in pts]
    if rng.random() < 0.3:
        pts = [[-x, y] for x, y in pts]
    if rng.random() < 0.3:
        pts = [[x, -y] for x, y in pts]
    pts = [[float(sc * (x + ox)), float(sc * (y + oy))] for x, y in pts]
    r = rng.randrange(len(pts))
    pts = pts[r:] + pts[:r]
    if rng.random() < 0.5:
        pts.reverse()
    swap = rng.random() < 0.5
    pp = [(p[1], p[0]) if swap else (p[0], p[1]) for p in pts]
    xs = [p[0] for p in pp]
    edge_x = sorted({a[0] for a, b in zip(pp, pp[1:] + pp[:1]) if a[0] == b[0] and min(xs) < a[0] < max(xs)})
    steps = [rng.choice(edge_x) for _ in range(rng.randrange(1, 3))] if edge_x else []
    steps += [rng.uniform(min(xs), max(xs)) for _ in range(rng.randrange(0, 3))]
    if rng.random() < 0.3:
        steps.append(min(xs) + 0.5 * sc)
    rng.shuffle(steps)
    return pts, swap, steps


def long_polygon_case(ctx, rng, k):
    """a contour with more than 512 (sometimes more than 1024) edges, its vertex numbering rotated so that the edge
    511 -> 512 (or 1023 -> 1024) lies on the upper boundary, requested abscissae on exactly those edges"""
    import virocon as v
    swap = rng.random() < 0.5
    if k % 3 == 2:
        kind = "IFORM-720"
        c = v.IFORMContour(random_model(rng), 10 ** rng.uniform(-3, -1), n_points=rng.choice([720, 600, 1100]))
        pts = [[float(x), float(y)] for x, y in c.coordinates]
    else:
        kind = "fine-polygon"
        n = rng.choice([520, 600, 720, 1030, 1100])
        R, cx, cy = rng.choice([1.0, 5.0, 0.01]), rng.uniform(-3, 8), rng.uniform(-3, 8)
        ex, ey, m, amp, ph = rng.uniform(0.5, 2), rng.uniform(0.5, 2), rng.choice([0, 2, 3, 5]), rng.uniform(0.0, 0.25), rng.uniform(0, 6.28)
        pts = []
        for i in range(n):
            a = 2 * math.pi * i / n
            r = R * (1 + amp * math.sin(m * a + ph))
            pts.append([cx * R + ex * r * math.cos(a), cy * R + ey * r * math.sin(a)])
        if rng.random() < 0.5:
            pts.reverse()
    n = len(pts)
    py = [p[0] if swap else p[1] for p in pts]
    top = max(range(n), key=lambda i: py[i])
    target = rng.choice([511, 512] + ([1023, 1024] if n > 1030 else []))
    r = (top - target) % n                       # after the rotation the top vertex has index `target`
    pts = pts[r:] + pts[:r]
    px = [p[1] if swap else p[0] for p in pts]
    steps = []
    for e in (511, 1023, 1535):
        if e + 1 < n or e + 1 == n:
            a, b = px[e], px[(e + 1) % n]
            steps.append(a + rng.choice([0.5, 0.3, 0.7]) * (b - a))
    steps += [rng.uniform(min(px), max(px)) for _ in range(rng.randrange(0, 2))]
    rng.shuffle(steps)
    return {"kind": kind, "coords": pts, "swap": swap, "steps": steps, "vertex_stream": False, "steps_type": "list", "coords_dtype": "float"}


SCALE_EXPONENTS = [-20, -17, -13, -10, -7, 7, 10, 13, 17, 20]


def gen_dc_case(ctx, rng, k, n_real):
    vertex_stream = False
    forced = None
    obj = None
    if k < n_real:
        kind, coords, obj = real_contour(ctx, rng, k)
        if kind in ("HDC", "HDC-region", "And", "Or") and rng.random() < 0.3:
            vertex_stream = True
    else:
        r = rng.random()
        if r < 0.10:
            kind, coords = "convex", star_polygon(rng, convex=True)
        elif r < 0.50:
            kind, coords = "star", star_polygon(rng)
        elif r < 0.60:
            kind, coords = "dup-vertices", dup_vertices_polygon(rng)
        elif r < 0.72:
            kind = "tie-closing"
            coords, sw, st = tie_closing_polygon(rng)
            forced = (sw, st)
        elif r < 0.84:
            kind = "rectilinear"
            coords, sw, st = rectilinear_polygon(rng)
            forced = (sw, st)
            vertex_stream = True
        else:
            kind, coords = "star-rounded", star_polygon(rng, n=rng.choice([4, 5, 6, 8, 10]), decimals=rng.choice([0, 1]))
            vertex_stream = rng.random() < 0.7
    # coordinate scale: the property (and the exact oracle) is scale-free; an exact power of two keeps every
    # tie, vertex hit and parallelism of the unscaled polygon (2**-20 ~ 1e-6 ... 2**20 ~ 1e6)
    sc = 2.0 ** rng.choice(SCALE_EXPONENTS) if rng.random() < 0.4 else 1.0
    if sc != 1.0:
        coords = [[x * sc, y * sc] for x, y in coords]
        obj = None
        if forced is not None:
            forced = (forced[0], [v * sc for v in forced[1]] if isinstance(forced[1], list) else forced[1])
    whole = all(float(v).is_integer() for p in coords for v in p)
    dtype = "int" if (whole and obj is None and rng.random() < 0.5) else "float"
    if forced is not None:
        return {"kind": kind, "coords": coords, "swap": forced[0], "steps": forced[1], "vertex_stream": vertex_stream,
                "steps_type": "list", "coords_dtype": dtype, "scale": sc}
    swap = rng.random() < 0.4
    if kind in ("IFORM", "ISORM", "DirectSampling") and rng.random() < 0.15:
        vertex_stream = True
    if sc == 1.0 and kind in ("star", "convex", "dup-vertices") and rng.random() < 0.5:
        # wide polygons, so that whole-number abscissae fall inside the extent
        coords = [[x * 40.0, y * 40.0] for x, y in coords] if max(abs(v) for p in coords for v in p) < 2 else coords
    steps = gen_steps(rng, coords, swap, vertex_stream)
    case = {"kind": kind, "coords": coords, "swap": swap, "steps": steps, "vertex_stream": vertex_stream, "coords_dtype": dtype, "scale": sc,
            "steps_type": rng.choice(["list", "list", "tuple", "ndarray", "range", "iterator"]) if isinstance(steps, list) else "list"}
    if obj is not None:
        case["contour"] = obj
    return case


def grid_walk(rng, n):
    """polyline on the integer grid with steps from a small set of directions (many exactly parallel segments)"""
    dirs = [(1, 1), (1, -1), (2, 1), (1, 2), (2, -1), (1, 0), (0, 1), (-1, 1), (-1, -1), (0, -1), (-2, 1), (3, 1)]
    x, y = rng.randrange(0, 5), rng.randrange(0, 5)
    pts = [[x, y]]
    for _ in range(n - 1):
        dx, dy = rng.choice(dirs)
        m = rng.choice([1, 1, 2, 3])
        x, y = x + m * dx, y + m * dy
        pts.append([x, y])
    return pts


def polyline(rng, n, box, lattice):
    x, y = rng.uniform(*box), rng.uniform(*box)
    pts = []
    for _ in range(n):
        pts.append([round(x) if lattice else x, round(y) if lattice else y])
        x += rng.uniform(-0.4, 0.4) * (box[1] - box[0])
        y += rng.uniform(-0.4, 0.4) * (box[1] - box[0])
    return [[float(a), float(b)] for a, b in pts]


def gen_ix_case(rng):
    c = _gen_ix_case(rng)
    if rng.random() < 0.4:
        sc = 2.0 ** rng.choice(SCALE_EXPONENTS)
        c = dict(c, c1=[[a * sc, b * sc] for a, b in c["c1"]], c2=[[a * sc, b * sc] for a, b in c["c2"]], scale=sc)
    return c


def long_curve_ix_case(rng):
    """first curve with more than 512 segments, the second one crosses it on segment 511 (and 1023)"""
    n = rng.choice([520, 700, 1030, 1100])
    xs = sorted(rng.uniform(0, 100) for _ in range(n + 1))
    f = rng.uniform(0.05, 0.3)
    c1 = [[x, 3 * math.sin(f * x) + 0.2 * math.cos(1.7 * x)] for x in xs]
    c2 = []
    for e in (511, 1023):
        if e + 1 <= n:
            (ax, ay), (bx, by) = c1[e], c1[e + 1]
            t = rng.choice([0.5, 0.35, 0.6])
            mx, my = ax + t * (bx - ax), ay + t * (by - ay)
            c2 += [[mx - 0.013, my - 2.0], [mx + 0.011, my + 2.5]]
    if rng.random() < 0.5:
        c2 = c2[::-1]
    return {"kind": "long-first-curve", "c1": c1, "c2": c2}


def _gen_ix_case(rng):
    if rng.random() < 0.03:
        return long_curve_ix_case(rng)
    mode = rng.choice(["walk", "walk", "walk", "graphs", "lattice", "polygon-line", "grid-offset", "grid-offset"])
    if mode == "grid-offset":
        # both polylines on one grid, the second shifted by half a cell: exactly parallel segments with
        # overlapping boxes are frequent, crossings are (mostly) not at segment ends
        off = rng.choice([(0.5, 0.0), (0.0, 0.5), (0.5, 0.5), (0.5, 0.25)])
        c1 = grid_walk(rng, rng.randrange(3, 9))
        c2 = [[px + off[0], py + off[1]] for px, py in grid_walk(rng, rng.randrange(3, 9))]
        sc = rng.choice([1.0, 1.0, 0.5, 4.0])
        return {"kind": mode, "c1": [[float(sc * a), float(sc * b)] for a, b in c1], "c2": [[float(sc * a), float(sc * b)] for a, b in c2]}
    if mode == "walk":
        box = rng.choice([(0, 1), (-5, 5), (100, 101), (-1e-3, 1e-3)])
        return {"kind": mode, "c1": polyline(rng, rng.randrange(2, 12), box, False), "c2": polyline(rng, rng.randrange(2, 12), box, False)}
    if mode == "graphs":
        n = rng.randrange(3, 30)
        xs = sorted(rng.uniform(0, 10) for _ in range(n))
        f1 = [[x, math.sin(x * rng.uniform(0.5, 2)) + rng.uniform(-0.2, 0.2)] for x in xs]
        xs2 = sorted(rng.uniform(0, 10) for _ in range(rng.randrange(3, 30)))
        f2 = [[x, math.cos(x * rng.uniform(0.5, 2)) * rng.uniform(0.2, 1.5)] for x in xs2]
        return {"kind": mode, "c1": f1, "c2": f2}
    if mode == "lattice":
        return {"kind": mode, "c1": polyline(rng, rng.randrange(2, 7), (0, 6), True), "c2": polyline(rng, rng.randrange(2, 7), (0, 6), True)}
    poly = star_polygon(rng)
    poly = poly + [poly[0]]
    xs = [p[0] for p in poly]
    ys = [p[1] for p in poly]
    a = [rng.uniform(min(xs), max(xs)), min(ys) - 1.0]
    b = [rng.uniform(min(xs), max(xs)), max(ys) + 1.0]
    return {"kind": mode, "c1": poly, "c2": [a, b]}


# ------------------------------------------------------------------ Coq side
PRELUDE = """From Coq Require Import Qabs.
From V.model Require Import Intersection.
Local Open Scope Q_scope.
Definition qclose (tol a b : Q) : bool := Qle_bool (Qabs (a - b)) tol.
Fixpoint all2 {A B} (f : A -> B -> bool) (a : list A) (b : list B) : bool :=
  match a, b with [], [] => true | x :: a', y :: b' => f x y && all2 f a' b' | _, _ => false end.
(* 0 agree; 1 number of rows differs; 2 a value differs by more than tol; 3 the implementation raised *)
Definition cmp_pts (tol : Q) (res : list (Q * Q)) (exp : option (list (Q * Q))) : Z :=
  match exp with
  | None => 3%Z
  | Some e =>
      if negb (Nat.eqb (List.length res) (List.length e)) then 1%Z
      else if all2 (fun a b => qclose tol (fst a) (fst b) && qclose tol (snd a) (snd b)) res e then 0%Z else 2%Z
  end.
"""


def q(x):
    return qlit(Fr(float(x)))


def qpts(pts):
    return "[" + "; ".join("(%s, %s)" % (q(a), q(b)) for a, b in pts) + "]"


def coq_expected(res):
    return "None" if "err" in res else "(Some %s)" % qpts(res["rows"])


def coq_dc(case, res):
    st = case["steps"]
    if st is None:
        s = "StepsDefault"
    elif isinstance(st, int):
        s = "(StepsNum %d%%nat)" % st
    else:
        s = "(StepsList [%s])" % "; ".join(q(v) for v in st)
    tol = qlit(TOL * scale_of(fr_pts(case["coords"])))
    return "cmp_pts %s (Qdesign_conditions %s %s %s) %s" % (tol, "true" if case["swap"] else "false", qpts(case["coords"]), s, coq_expected(res))


def coq_ix(case, res):
    tol = qlit(TOL * scale_of(fr_pts(case["c1"]), fr_pts(case["c2"])))
    return "cmp_pts %s (Qintersection %s %s) %s" % (tol, qpts(case["c1"]), qpts(case["c2"]), coq_expected(res))


# ------------------------------------------------------------------ shrinking / replay
def _sigkey(sig):
    return (sig.get("function"), sig.get("clause"), sig.get("input_class"), sig.get("exception"), sig.get("vertex_hit"), sig.get("history"))


def shrink_dc(vu, case, sig):
    key = _sigkey(sig)

    def fails(c):
        try:
            s, _, _ = oracle_dc(vu, c)
        except Exception:
            return False
        return s is not None and _sigkey(s) == key

    c = {k: v for k, v in case.items() if k != "contour"}
    if c.get("steps_type") == "iterator":
        c["steps_type"] = "list"
    if c["steps"] is None or isinstance(c["steps"], int):
        # make the abscissae explicit when that keeps the failure
        cl, absc, _, _, _ = dc_reference(c)
        c2 = dict(c, steps=[float(a) for a in absc])
        if fails(c2):
            c = c2
    if isinstance(c["steps"], list):
        st = vlib.shrink_list(c["steps"], lambda xs: fails(dict(c, steps=list(xs))), min_len=1)
        c = dict(c, steps=st)
    if len(c["coords"]) <= 300:      # (a failure that needs hundreds of vertices is not worth hundreds of oracle runs)
        co = vlib.shrink_list(c["coords"], lambda ps: len(ps) >= 3 and fails(dict(c, coords=list(ps))), min_len=3)
        c = dict(c, coords=co)
    mag = max([abs(v) for p_ in c["coords"] for v in p_] + [1e-300])
    shift = max(0, -int(math.floor(math.log10(mag))))        # decimals are counted from the leading digit of the coordinates
    for dec in (0, 1, 2, 3, 5):
        c2 = dict(c, coords=[[round(x, dec + shift), round(y, dec + shift)] for x, y in c["coords"]],
                  steps=[round(v, dec + shift + 1) for v in c["steps"]] if isinstance(c["steps"], list) else c["steps"])
        if fails(c2):
            c = c2
            break
    c.pop("vertex_stream", None)
    return c


def shrink_ix(vi, case, sig):
    key = _sigkey(sig)

    def fails(c):
        try:
            s, _, _ = oracle_ix(vi, c)
        except Exception:
            return False
        return s is not None and _sigkey(s) == key

    c = dict(case)
    for name in ("c1", "c2"):
        if len(c[name]) > 300:
            continue
        pts = vlib.shrink_list(c[name], lambda ps: len(ps) >= 2 and fails(dict(c, **{name: list(ps)})), min_len=2)
        c = dict(c, **{name: pts})
    return c


def replay(ctx, r):
    vu, vi = _imp()
    if r.get("function") == "intersection":
        s, msg, _ = oracle_ix(vi, r)
    elif "history" in r:
        f = oracle_history(vu, r["coords"], r["history"], r.get("coords_dtype", "float"))
        s, msg = (f[1], f[2]) if f else (None, None)
    else:
        s, msg, _ = oracle_dc(vu, r)
    if s:
        print("  ", msg)
    return s is not None


# ------------------------------------------------------------------ histories on ONE contour object
def run_history(vu, coords, requests, dtype="float", contour=None):
    """several requests, one after the other, on the same contour object"""
    obj = contour or _Contour(coords, dtype)
    out = []
    for rq in requests:
        out.append(run_dc(vu, {"coords": coords, "swap": rq["swap"], "steps": rq["steps"], "steps_type": rq.get("steps_type", "list"), "contour": obj}))
    try:
        after = [[float(x), float(y)] for x, y in np.asarray(obj.coordinates)]
    except Exception:  # noqa
        after = None
    return out, after


def oracle_history(vu, coords, requests, dtype="float", contour=None):
    """every request is judged against the coordinates the contour had when it was created;
    returns None or (index of the failing request, signature, message)"""
    snapshot = [[float(x), float(y)] for x, y in coords]
    res, after = run_history(vu, snapshot, requests, dtype, contour)
    for j, (rq, r) in enumerate(zip(requests, res)):
        plain = {"coords": snapshot, "swap": rq["swap"], "steps": rq["steps"], "steps_type": rq.get("steps_type", "list"), "coords_dtype": dtype}
        s, msg, _ = oracle_dc(vu, plain, r)
        if s is not None and not s.get("vertex_hit"):
            if oracle_dc(vu, plain)[0] is not None:
                continue        # fails on a fresh contour object as well: not a matter of history (the case stream reports it)
            return j, dict(s, history=True), "request %d of %d on one contour object (swap_axis=%r, steps=%r): %s" % (j + 1, len(requests), rq["swap"], rq["steps"], msg)
    if after != snapshot:
        return len(requests) - 1, {"function": "calculate_design_conditions", "clause": "contour-modified", "history": True}, \
            "after %d requests the contour's coordinates are no longer the ones it was created with" % len(requests)
    return None


def shrink_history(vu, coords, requests, dtype, sig):
    def fails(rqs, co=coords):
        f = oracle_history(vu, co, rqs, dtype)
        return f is not None and f[1].get("clause") == sig.get("clause")
    j = oracle_history(vu, coords, requests, dtype)[0]
    best = requests[:j + 1]
    for i in range(j):
        if fails([requests[i], requests[j]]):
            best = [requests[i], requests[j]]
            break
    co = vlib.shrink_list(coords, lambda ps: len(ps) >= 3 and fails(best, list(ps)), min_len=3)
    return co, best


# ------------------------------------------------------------------ run
def run(ctx):
    vu, vi = _imp()
    ctx.proof_gate(need_gen=False)
    rng = ctx.rng
    n_dc = ctx.n(320, 5000)
    n_real = ctx.n(48, 500)
    n_ix = ctx.n(300, 5000)
    dc_cases = [gen_dc_case(ctx, rng, k, n_real) for k in range(n_dc)]
    ix_cases = [gen_ix_case(rng) for _ in range(n_ix)]
    dc_cases += [long_polygon_case(ctx, rng, k) for k in range(ctx.n(6, 60))]
    # fixed corpus: the shapes behind the two repaired defects and the documented example
    dc_cases += [
        {"kind": "corpus", "coords": [[0, 0], [2, 1], [3, 3], [1, 2]], "swap": False, "steps": [2.0], "vertex_stream": True},
        {"kind": "corpus", "coords": [[0, 0], [2, 1], [4, 0], [3, 2], [4, 4], [2, 3], [0, 4], [1, 2]], "swap": False, "steps": [0.5, 3.5], "vertex_stream": False},
        {"kind": "corpus", "coords": [[0, -10], [2, -9], [3, -7], [1, -8]], "swap": False, "steps": [0.5, 1.5, 2.5], "vertex_stream": False},
        {"kind": "corpus", "coords": [[0, -10], [2, -9], [3, -7], [1, -8]], "swap": True, "steps": None, "vertex_stream": False},
        # first and last vertex tie in one coordinate, the closing edge is the upper boundary
        {"kind": "corpus", "coords": [[1, 4], [0, 1], [6, 1], [5, 4]], "swap": False, "steps": [2.0, 3.5], "vertex_stream": False},
        {"kind": "corpus", "coords": [[4, 1], [1, 0], [1, 6], [4, 5]], "swap": True, "steps": [2.0, 3.5], "vertex_stream": False},
        # abscissa exactly on an interior vertical edge (singular candidate pair) while another edge is crossed inside
        {"kind": "corpus", "coords": [[0, 0], [4, 0], [4, 2], [2, 2], [2, 4], [0, 4]], "swap": False, "steps": [2.0, 1.0], "vertex_stream": True},
        {"kind": "corpus", "coords": [[0, 0], [4, 0], [4, 2], [2, 2], [2, 4], [0, 4]], "swap": True, "steps": [2.0, 3.0], "vertex_stream": True},
    ]
    dc_cases += [
        # an abscissa exactly at a non-extreme vertex whose two hits (t = 1 + eps, t = -eps) are both lost (known finding)
        {"kind": "corpus", "coords": [[3.921875, 7.765625], [3.71875, 5.0625], [4.265625, 4.640625], [6.40625, 4.484375]], "swap": False,
         "steps": [3.921875], "vertex_stream": True, "steps_type": "list"},
    ]
    dc_cases += [
        # explicit abscissae in the outermost 0.01 % of the extent; whole-number abscissae in int containers
        {"kind": "corpus", "coords": [[0, 0], [10, 1], [7, 6], [2, 5]], "swap": False, "steps": [0.0002, 9.9998, 0.0005, 5.0], "vertex_stream": False, "steps_type": "list"},
        {"kind": "corpus", "coords": [[0, 0], [10, 1], [7, 6], [2, 5]], "swap": True, "steps": [0.0001, 5.9999], "vertex_stream": False, "steps_type": "tuple"},
        {"kind": "corpus", "coords": [[0.3, 0.2], [9.6, 1.1], [7.2, 6.4], [2.1, 5.3]], "swap": False, "steps": [2, 4, 6], "vertex_stream": False, "steps_type": "list"},
        {"kind": "corpus", "coords": [[0.3, 0.2], [9.6, 1.1], [7.2, 6.4], [2.1, 5.3]], "swap": False, "steps": [1, 3, 5, 7], "vertex_stream": False, "steps_type": "range"},
        {"kind": "corpus", "coords": [[0.3, 0.2], [9.6, 1.1], [7.2, 6.4], [2.1, 5.3]], "swap": True, "steps": [1, 2, 5], "vertex_stream": False, "steps_type": "ndarray"},
    ]
    ix_cases += [
        {"kind": "corpus", "c1": [[0.0, 0.0], [2.0, 2.0], [4.0, 0.0]], "c2": [[0.5, 0.0], [2.5, 2.0], [2.5, -1.0]]},
    ]
    dc_res = [run_dc(vu, c) for c in dc_cases]
    ix_res = [run_ix(vi, c) for c in ix_cases]

    # ---- histories: several requests on ONE contour object, each judged against the coordinates at creation
    n_hist = ctx.n(40, 400)
    hist_found = None
    hist_sw = {}
    for h in range(n_hist):
        base_case = gen_dc_case(ctx, rng, (h % 14) if h % 3 == 0 else 10 ** 9, 14)
        coords = base_case["coords"]
        pattern = [False, True, False, True, True, False] if h % 4 == 0 else [rng.random() < 0.5 for _ in range(rng.randrange(2, 6))]
        requests = []
        for sw in pattern:
            st = rng.choice([None, rng.choice([3, 5, 10])]) if rng.random() < 0.5 else gen_steps(rng, coords, sw, False)
            requests.append({"swap": sw, "steps": st, "steps_type": "list"})
        hist_sw["".join("T" if q else "F" for q in pattern)] = 1
        ctx.count(("history", coords, str(requests)), any(pattern))
        f = oracle_history(vu, coords, requests, base_case.get("coords_dtype", "float"), base_case.get("contour"))
        if f is not None and hist_found is None:
            hist_found = (coords, requests, base_case.get("coords_dtype", "float"), f)
    ctx.notes["histories_on_one_contour_object"] = {"histories": n_hist, "distinct_swap_patterns": len(hist_sw)}
    if hist_found is not None:
        coords, requests, dtype, (j, sig, msg) = hist_found
        try:
            co, rq = shrink_history(vu, coords, requests, dtype, sig)
            f2 = oracle_history(vu, co, rq, dtype)
        except Exception:  # noqa
            f2 = None
        if f2 is None:
            co, rq, f2 = coords, requests[:j + 1], (j, sig, msg)
        ctx.violation(f2[1], "calculate_design_conditions, %d requests on one contour object with coordinates %r: %s" % (
            len(rq), co if len(co) <= 8 else "<%d points>" % len(co), f2[2]),
            {"function": "calculate_design_conditions", "coords": co, "history": rq, "coords_dtype": dtype})

    # ---- property oracle on every case (cheap); also supplies judgeability for the correspondence
    dc_or = [oracle_dc(vu, c, r) for c, r in zip(dc_cases, dc_res)]
    ix_or = [oracle_ix(vi, c, r) for c, r in zip(ix_cases, ix_res)]

    dist, hits_hist, unj, flat, vtx, vmiss = {}, {}, 0, 0, 0, 0
    for c, r, (s, m, info) in zip(dc_cases, dc_res, dc_or):
        st = c["steps"]
        k = "dc/%s/steps=%s%s" % (c["kind"], "None" if st is None else ("int" if isinstance(st, int) else "list"), "/err:" + r["err"] if "err" in r else "")
        dist[k] = dist.get(k, 0) + 1
        for h in info["hits"]:
            hk = str(h) if h < 5 else "5+"
            hits_hist[hk] = hits_hist.get(hk, 0) + 1
        unj += info["unjudgeable_abscissae"]
        vtx += info.get("vertex_abscissae", 0)
        vmiss += info.get("vertex_top_missed", 0)
        flat += 1 if info.get("flat_on_axis") else 0
        ctx.count(("dc", c["coords"], str(st), c["swap"]), any(h >= 2 for h in info["hits"]))
    ix_delicate = 0
    ix_hits = {}
    for c, r, (s, m, info) in zip(ix_cases, ix_res, ix_or):
        dist["ix/" + c["kind"]] = dist.get("ix/" + c["kind"], 0) + 1
        ix_delicate += 1 if info.get("delicate") else 0
        hk = str(info["hits"]) if info["hits"] < 5 else "5+"
        ix_hits[hk] = ix_hits.get(hk, 0) + 1
        ctx.count(("ix", c["c1"], c["c2"]), info["hits"] >= 1)
    ctx.notes["input_distribution"] = dist
    ctx.notes["crossings_per_abscissa"] = hits_hist
    ctx.notes["crossings_per_polyline_pair"] = ix_hits
    ctx.notes["unjudgeable"] = {"abscissae_tangent_or_within_1e-7_of_a_vertex_or_steep_edge": unj,
                                "polygons_flat_on_the_axis": flat,
                                "abscissae_whose_top_hit_is_exactly_a_vertex_and_was_missed_in_binary64": vmiss,
                                "polyline_pairs_not_in_general_position": ix_delicate}
    ctx.notes["abscissae_through_a_vertex"] = vtx
    sch = {}
    for c in dc_cases + ix_cases:
        k = "1" if c.get("scale", 1.0) == 1.0 else "2^%d" % round(math.log2(c["scale"]))
        sch[k] = sch.get(k, 0) + 1
    ctx.notes["coordinate_scales"] = sch
    ctx.notes["sizes"] = {"polygon_vertices_max": max(len(c["coords"]) for c in dc_cases),
                          "polyline_vertices_max": max(max(len(c["c1"]), len(c["c2"])) for c in ix_cases)}
    for c, r in list(zip(dc_cases, dc_res))[:2]:
        ctx.sample({"case": {k: (v[:4] if k == "coords" else v) for k, v in c.items() if k != "contour"}, "implementation": r if "err" in r else r["rows"][:3]})
    ctx.sample({"case": ix_cases[0], "implementation": ix_res[0]})

    # ---- correspondence: Q instance of the model vs the implementation
    # shards are filled round-robin so that the expensive cases (180-vertex contours) are spread evenly
    allc = [("dc", i) for i in range(len(dc_cases))] + [("ix", i) for i in range(len(ix_cases))]
    nshards = max(16, -(-len(allc) // 60))
    items, index = [], []
    for s in range(nshards):
        part = allc[s::nshards]
        lines = [coq_dc(dc_cases[i], dc_res[i]) if kind == "dc" else coq_ix(ix_cases[i], ix_res[i]) for kind, i in part]
        body = PRELUDE + "Definition results : list Z := [\n" + ";\n".join(lines) + "].\nEval vm_compute in results.\n"
        items.append(("cases_%d" % s, body))
        index.append(part)
    outs = ctx.coq_eval_many(items, jobs=16)
    ncmp, nmis, nskip = 0, 0, 0
    suspects_dc, suspects_ix = [], []
    names = {1: "number of rows", 2: "a value (> 1e-9 of the scale)", 3: "implementation raised, model returns a result"}
    for o, idx in zip(outs, index):
        if o is None:
            continue
        codes = vlib.parse_term(o[0])
        for code, (kind, i) in zip(codes, idx):
            ncmp += 1
            if code == 0:
                continue
            if kind == "dc":
                judge = dc_or[i][2]["unjudgeable_abscissae"] == 0 and not dc_or[i][2].get("flat_on_axis") \
                    and not dc_or[i][2].get("vertex_top_missed")
                if not judge and code != 3:
                    nskip += 1
                    continue
                nmis += 1
                ctx.mismatch("design conditions case %d" % i, "%s differ: %r" % (names.get(code, code), {k: v for k, v in dc_cases[i].items() if k != "coords"}))
                suspects_dc.append(i)
            else:
                if ix_or[i][2].get("delicate"):
                    nskip += 1
                    continue
                nmis += 1
                ctx.mismatch("intersection case %d" % i, "%s differ (%s)" % (names.get(code, code), ix_cases[i]["kind"]))
                suspects_ix.append(i)
    ctx.cov["programs"] = 2
    ctx.notes["correspondence"] = {"cases_compared": ncmp, "mismatches": nmis, "mismatches_on_unjudgeable_inputs_ignored": nskip}

    # ---- search: report concrete failing inputs (mismatching cases first)
    found = {}
    order_dc = suspects_dc + [i for i in range(len(dc_cases)) if i not in set(suspects_dc)]
    for i in order_dc:
        s, msg, _ = dc_or[i]
        if s is None or _sigkey(s) in found:
            continue
        small = shrink_dc(vu, dc_cases[i], s)
        s2, msg2, _ = oracle_dc(vu, small)
        if s2 is None:
            small, s2, msg2 = dc_cases[i], s, msg
        found[_sigkey(s)] = True
        rep = {"function": "calculate_design_conditions", "coords": small["coords"], "steps": small["steps"], "swap": small["swap"],
               "steps_type": small.get("steps_type", "list"), "coords_dtype": small.get("coords_dtype", "float")}
        ctx.violation(s2, "calculate_design_conditions(coords=%r, steps=%r, swap_axis=%r): %s" % (
            small["coords"] if len(small["coords"]) <= 8 else "<%d points>" % len(small["coords"]), steps_object(small), small["swap"], msg2), rep)
    order_ix = suspects_ix + [i for i in range(len(ix_cases)) if i not in set(suspects_ix)]
    for i in order_ix:
        s, msg, _ = ix_or[i]
        if s is None or _sigkey(s) in found:
            continue
        small = shrink_ix(vi, ix_cases[i], s)
        s2, msg2, _ = oracle_ix(vi, small)
        if s2 is None:
            small, s2, msg2 = ix_cases[i], s, msg
        found[_sigkey(s)] = True
        show = lambda pts: pts if len(pts) <= 8 else "<%d points>" % len(pts)   # noqa
        ctx.violation(s2, "intersection(%r, %r): %s" % (show(small["c1"]), show(small["c2"]), msg2), {"function": "intersection", "c1": small["c1"], "c2": small["c2"]})

    ctx.cov["rule"] = ("design-condition cases: contours of random Weibull/log-normal models (IFORM, ISORM, direct sampling) and random star-shaped / convex / "
                       "rounded polygons (positive, mixed and negative coordinates), steps None / int / lists inside, outside, duplicated, through vertices, "
                       "both swap_axis values; intersection cases: random walks, function graphs, lattice polylines, polygon vs line. "
                       "non-trivial = some abscissa meets the polygon at >= 2 ordinates (design conditions) or the polylines cross at least once (intersection); "
                       "distinct = hash of (coordinates, steps, swap)")
    ctx.cov["trusted_base"] = ["Coq 8.16.1 kernel + vm_compute (QArith, exact rationals)",
                               "harness tools/harness/c17.py (generators, float -> exact rational literals, tolerance 1e-9 of the coordinate scale)",
                               "numpy.linalg.solve as an oracle: returns the solution of the 4x4 system, LinAlgError iff singular (the model solves in closed form)",
                               "binary64 rounding of the implementation is not bounded by a theorem: compared to the exact model to 1e-9"]
    ctx.assumptions += ["polygon does not lie flat on the axis: min ordinate < max ordinate or max ordinate <> 0 (hypothesis of the design-condition theorems)",
                        "general position for completeness clauses: crossing segments are not parallel; ordinates on vertical edges are not counted as crossings",
                        "abscissae touching a vertex tangentially, within 1e-7 of a vertex, or on edges steeper than 1e5 are not judged (float decision may differ from the exact one)"]
