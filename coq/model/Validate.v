(* Executable model of the input validation of virocon (property C18): which specifications
   are rejected, with which exception class, by which function (site) and for which dimension.

   Descriptions are data: dictionaries are abstracted to the facts the checks look at (key
   present or not, kind of value).  Every validator returns [Ok | Err tag pos]; the exception
   class and the raising function are functions of the tag ([exc_of], [site_of]).  The order of
   the checks is the order of the code, so that for descriptions with several malformations
   the model names the one that the code reports.

   Sources: jointmodels.py (GlobalHierarchicalModel.__init__, _check_dist_descriptions,
   _check_and_fill_fit_desc, fit, pdf, MultivariateModel.cdf), distributions.py
   (ConditionalDistribution.__init__, Distribution.fit, ExponentiatedWeibullDistribution._fit_lsq),
   contours.py (HighestDensityContour._check_grid/_compute, 2-D guards, IFORMContour.__init__),
   intervals.py (IntervalSlicer.__init__, slice_, _slice).  No proofs in this file. *)
From Coq Require Import List Bool Arith ZArith String PrimFloat FloatClass.
Import ListNotations.
Local Open Scope string_scope.
Local Open Scope nat_scope.

(* ------------------------------------------------------------------ results *)
Inductive exc := ValueError | TypeError | RuntimeError | NotImplementedError | IndexError | AttributeError.

Inductive contour2d := CDirectSampling | CAnd | COr.

Inductive tag :=
  (* model description *)
  | MissingDistribution | MissingParameters | UnknownKeys | BadHierarchy
  | UnknownParams | NotDefined | BothGiven | FirstConditional | EmptyModel
  (* fit *)
  | FitLength | MissingMethod | DataDimension | UnknownMethod | MethodNotString
  | LsqNotImplemented | UnknownWeights | WeightsNonFinite | LsqFixedNotImplemented
  (* slicers *)
  | UnknownKwarg | ReferenceNotCallable | UnknownReference | ReferenceType | TooFewIntervals | NoIntervals
  (* highest density contour *)
  | LimitsLength | DeltasLength | LimitSubscript | LimitIndex | LimitTuple | PdfNan | CumsumNan
  (* evaluation points, contours *)
  | NonFinitePdf | NonFiniteCdf | NonFiniteTransformedCdf | NonFiniteEmpiricalCdf | Not2D (k : contour2d) | ModelType.

(* the function whose body raises (innermost frame inside virocon) *)
Inductive site :=
  | GHM_check_dist_descriptions | CondDist_init | GHM_init
  | GHM_check_and_fill_fit_desc | GHM_fit | Dist_fit | EW_fit_lsq | Dist_fit_lsq
  | Slicer_init | PPI_init | Slicer__slice | Slicer_slice_ | PPI__slice
  | HDC_check_grid | HDC_compute | HDC_cumsum_biggest_until | C2D_compute (k : contour2d) | IFORM_init
  | GHM_pdf | MM_cdf | TM_cdf | TM_empirical_cdf.

Definition exc_of (t : tag) : exc :=
  match t with
  | FirstConditional | TooFewIntervals => RuntimeError
  | EmptyModel | LimitIndex | NoIntervals => IndexError
  | MethodNotString => AttributeError
  | LsqNotImplemented | LsqFixedNotImplemented | Not2D _ => NotImplementedError
  | UnknownKwarg | ReferenceNotCallable | ReferenceType | LimitSubscript | ModelType => TypeError
  | _ => ValueError
  end.

Definition site_of (t : tag) : site :=
  match t with
  | MissingDistribution | MissingParameters | UnknownKeys | BadHierarchy => GHM_check_dist_descriptions
  | UnknownParams | NotDefined | BothGiven => CondDist_init
  | FirstConditional | EmptyModel => GHM_init
  | FitLength | MissingMethod => GHM_check_and_fill_fit_desc
  | DataDimension => GHM_fit
  | UnknownMethod | MethodNotString => Dist_fit
  | LsqNotImplemented => Dist_fit_lsq
  | UnknownWeights | WeightsNonFinite | LsqFixedNotImplemented => EW_fit_lsq
  | UnknownKwarg => Slicer_init
  | ReferenceNotCallable => PPI_init
  | UnknownReference | ReferenceType => Slicer__slice
  | TooFewIntervals => Slicer_slice_
  | NoIntervals => PPI__slice
  | LimitsLength | DeltasLength | LimitSubscript | LimitIndex => HDC_check_grid
  | LimitTuple | PdfNan => HDC_compute
  | CumsumNan => HDC_cumsum_biggest_until
  | NonFinitePdf => GHM_pdf
  | NonFiniteCdf => MM_cdf
  | NonFiniteTransformedCdf => TM_cdf
  | NonFiniteEmpiricalCdf => TM_empirical_cdf
  | Not2D k => C2D_compute k
  | ModelType => IFORM_init
  end.

Inductive result := Ok | Err (t : tag) (pos : nat).

(* first check that fails wins *)
Definition and_then (a b : result) : result := match a with Ok => b | e => e end.

Section Iter.
  Variable A : Type.
  (* run [f i x] over the list, [i] counting from [k]; the first error is reported *)
  Fixpoint first_err_from (k : nat) (f : nat -> A -> result) (l : list A) : result :=
    match l with
    | [] => Ok
    | x :: l' => and_then (f k x) (first_err_from (S k) f l')
    end.
End Iter.
Arguments first_err_from {A}.

Definition mem (s : string) (l : list string) : bool := existsb (String.eqb s) l.
Definition is_nil {A} (l : list A) : bool := match l with [] => true | _ => false end.

(* ------------------------------------------------------------------ slicers *)
Inductive slicer_kind := SWidth | SNumber | SPoints.
(* value given for [reference] *)
Inductive refval := RCenter | RLeft | RRight | RUnknownStr | RCallable | ROther.

Record slicer := mkslicer {
  s_kind : slicer_kind;
  s_param : nat;                    (* n_intervals (SNumber) / n_points (SPoints); unused for SWidth *)
  s_unknown_kwargs : list string;   (* keyword arguments besides min_n_points / min_n_intervals *)
  s_ref : refval;
  s_min_n_intervals : nat
}.

(* NumberOfIntervalsSlicer(n_intervals=10), the default of GlobalHierarchicalModel *)
Definition default_slicer : slicer := mkslicer SNumber 10 [] RCenter 3.

Definition ref_callable (r : refval) : bool := match r with RCallable => true | _ => false end.

(* constructors: IntervalSlicer.__init__ (kwargs), then PointsPerIntervalSlicer.__init__ (reference) *)
Definition validate_slicer_init (i : nat) (s : slicer) : result :=
  if negb (is_nil (s_unknown_kwargs s)) then Err UnknownKwarg i
  else match s_kind s with
       | SPoints => if ref_callable (s_ref s) then Ok else Err ReferenceNotCallable i
       | _ => Ok
       end.

(* NumberOfIntervalsSlicer lowers min_n_intervals to n_intervals *)
Definition eff_min_n_intervals (s : slicer) : nat :=
  match s_kind s with SNumber => Nat.min (s_param s) (s_min_n_intervals s) | _ => s_min_n_intervals s end.

(* slice_ on data for which [surviving] intervals have at least min_n_points members *)
Definition validate_slice (i : nat) (s : slicer) (surviving : nat) : result :=
  match s_kind s with
  | SPoints =>
      if surviving =? 0 then Err NoIntervals i
      else if surviving <? eff_min_n_intervals s then Err TooFewIntervals i else Ok
  | _ =>
      match s_ref s with
      | RUnknownStr => Err UnknownReference i
      | ROther => Err ReferenceType i
      | _ => if surviving <? eff_min_n_intervals s then Err TooFewIntervals i else Ok
      end
  end.

(* ------------------------------------------------------------------ model descriptions *)
Inductive family := Weibull | LogNormal | Normal | LogNormalNormFit | ExpWeibull | GenGamma | VonMises | ScipyGamma.

Definition family_params (f : family) : list string :=
  match f with
  | Weibull => ["alpha"; "beta"; "gamma"]
  | LogNormal | Normal => ["mu"; "sigma"]
  | LogNormalNormFit => ["mu_norm"; "sigma_norm"]
  | ExpWeibull => ["alpha"; "beta"; "delta"]
  | GenGamma => ["m"; "c"; "lambda_"]
  | VonMises => ["kappa"; "mu"]
  | ScipyGamma => ["a"; "loc"; "scale"]
  end.

(* value stored under the key 'conditional_on' *)
Inductive cval := CNone | CInt (c : Z) | COther.

Record desc := mkdesc {
  d_has_distribution : bool;
  d_family : family;                (* class of the template distribution *)
  d_fixed : list string;            (* parameters p with f_<p> not None *)
  d_conditional_on : option cval;   (* key present -> Some value *)
  d_has_parameters : bool;          (* key 'parameters' present *)
  d_dependent : list string;        (* keys of the 'parameters' dict *)
  d_other_keys : list string;       (* keys besides distribution / intervals / conditional_on / parameters *)
  d_intervals : option slicer       (* key 'intervals' *)
}.

Definition d_params (d : desc) : list string := family_params (d_family d).

(* the hierarchy requires an int with 0 <= conditional_on < i *)
Definition hier_ok (i : nat) (cv : cval) : bool :=
  match cv with CInt c => (0 <=? c)%Z && (c <? Z.of_nat i)%Z | _ => false end.

(* _check_dist_descriptions, one entry.  [with_hier = false] is the code before the repair of
   lead L10 (no hierarchy check). *)
Definition check_keys (with_hier : bool) (i : nat) (d : desc) : result :=
  if negb (d_has_distribution d) then Err MissingDistribution i
  else match d_conditional_on d with
       | None => if is_nil (d_other_keys d) then Ok else Err UnknownKeys i
       | Some cv =>
           if negb (d_has_parameters d) then Err MissingParameters i
           else if negb (is_nil (d_other_keys d)) then Err UnknownKeys i
           else if with_hier && negb (hier_ok i cv) then Err BadHierarchy i else Ok
       end.

(* ConditionalDistribution.__init__: loop over the template's parameters in their order *)
Fixpoint check_params (i : nat) (fixed dependent names : list string) : result :=
  match names with
  | [] => Ok
  | p :: rest =>
      if mem p dependent
      then (if mem p fixed then Err BothGiven i else check_params i fixed dependent rest)
      else (if mem p fixed then check_params i fixed dependent rest else Err NotDefined i)
  end.

Definition check_cond (i : nat) (d : desc) : result :=
  match d_conditional_on d with
  | None => Ok
  | Some _ =>
      if negb (forallb (fun p => mem p (d_params d)) (d_dependent d)) then Err UnknownParams i
      else check_params i (d_fixed d) (d_dependent d) (d_params d)
  end.

Definition check_first (d0 : desc) : result :=
  match d_conditional_on d0 with
  | None | Some CNone => Ok       (* self.conditional_on[0] is not None *)
  | Some _ => Err FirstConditional 0
  end.

(* GlobalHierarchicalModel.__init__ *)
Definition validate_model_gen (with_hier : bool) (ds : list desc) : result :=
  match ds with
  | [] => Err EmptyModel 0
  | d0 :: _ =>
      and_then (first_err_from 0 (check_keys with_hier) ds)
     (and_then (first_err_from 0 check_cond ds)
          (check_first d0))
  end.

Definition validate_model : list desc -> result := validate_model_gen true.

(* ------------------------------------------------------------------ fit *)
Inductive methodv := MMle | MLsq | MWlsq | MUnknown | MNotString.
(* WArray: a finite array; WArrayNonFinite: an array with nan / inf entries; WScalar: not iterable *)
Inductive weightsv := WNone | WLinear | WQuadratic | WCubic | WUnknownStr | WArray | WArrayNonFinite | WScalar.

Record fitdesc := mkfit {
  f_has_method : bool;
  f_method : methodv;
  f_weights : weightsv      (* WNone when the key is absent *)
}.
Definition default_fitdesc : fitdesc := mkfit true MMle WNone.

Record fit_input := mkfitin {
  fi_descs : option (list (option fitdesc));   (* fit_descriptions; entries may be None *)
  fi_data_cols : nat;                          (* data.shape[-1] *)
  fi_surviving : list nat   (* per dimension: intervals its slicer keeps for this data (>= min_n_points members) *)
}.

Definition eff_fitdesc (fi : fit_input) (i : nat) : fitdesc :=
  match fi_descs fi with
  | None => default_fitdesc
  | Some l => match nth i l None with None => default_fitdesc | Some f => f end
  end.

Definition weights_known (w : weightsv) : bool :=
  match w with WUnknownStr | WScalar => false | _ => true end.
Definition weights_finite (w : weightsv) : bool :=
  match w with WArrayNonFinite => false | _ => true end.

(* ExponentiatedWeibullDistribution._fit_lsq: nothing fixed, or delta alone *)
Definition lsq_fixed_ok (fixed : list string) : bool :=
  is_nil fixed || (mem "delta" fixed && negb (mem "alpha" fixed) && negb (mem "beta" fixed)).

(* Distribution.fit and the family's _fit_lsq *)
Definition dispatch (i : nat) (fam : family) (fixed : list string) (m : methodv) (w : weightsv) : result :=
  match m with
  | MNotString => Err MethodNotString i
  | MMle => Ok
  | MUnknown => Err UnknownMethod i
  | MLsq | MWlsq =>
      match fam with
      | ExpWeibull =>
          if negb (weights_known w) then Err UnknownWeights i
          else if negb (weights_finite w) then Err WeightsNonFinite i     (* np.asarray_chkfinite(weights) *)
          else if lsq_fixed_ok fixed then Ok else Err LsqFixedNotImplemented i
      | _ => Err LsqNotImplemented i
      end
  end.

Definition cond_index (d : desc) : option nat :=
  match d_conditional_on d with Some (CInt c) => Some (Z.to_nat c) | _ => None end.

Definition slicer_at (ds : list desc) (c : nat) : slicer :=
  match nth_error ds c with
  | Some d => match d_intervals d with Some s => s | None => default_slicer end
  | None => default_slicer
  end.

Definition check_fit_entry (i : nat) (fd : option fitdesc) : result :=
  match fd with
  | None => Ok
  | Some f => if f_has_method f then Ok else Err MissingMethod i
  end.

Definition check_fit_descs (n_dim : nat) (fi : fit_input) : result :=
  match fi_descs fi with
  | None => Ok
  | Some l => if List.length l =? n_dim then first_err_from 0 check_fit_entry l else Err FitLength 0
  end.

Definition fit_dim (ds : list desc) (fi : fit_input) (i : nat) (d : desc) : result :=
  let fd := eff_fitdesc fi i in
  let go := dispatch i (d_family d) (d_fixed d) (f_method fd) (f_weights fd) in
  match cond_index d with
  | None => go
  | Some c => and_then (validate_slice i (slicer_at ds c) (nth c (fi_surviving fi) 0)) go
  end.

(* GlobalHierarchicalModel.fit on a constructed model *)
Definition validate_fit (ds : list desc) (fi : fit_input) : result :=
  and_then (check_fit_descs (List.length ds) fi)
 (and_then (if fi_data_cols fi =? List.length ds then Ok else Err DataDimension 0)
      (first_err_from 0 (fit_dim ds fi) ds)).

(* ------------------------------------------------------------------ evaluation points *)
(* the entry points that check their points with np.asarray_chkfinite: GlobalHierarchicalModel.pdf (also reached
   through TransformedModel.pdf), MultivariateModel.cdf, TransformedModel.cdf, TransformedModel.empirical_cdf *)
Inductive evalpoint := EvPdf | EvCdf | EvTransformedPdf | EvTransformedCdf | EvEmpiricalCdf.
Definition nonfinite_tag (e : evalpoint) : tag :=
  match e with
  | EvPdf | EvTransformedPdf => NonFinitePdf
  | EvCdf => NonFiniteCdf
  | EvTransformedCdf => NonFiniteTransformedCdf
  | EvEmpiricalCdf => NonFiniteEmpiricalCdf
  end.

Section Points.
  Variable T : Type.
  Variable finite : T -> bool.
  Definition all_finite (pts : list (list T)) : bool := forallb (forallb finite) pts.
  Definition validate_points (e : evalpoint) (pts : list (list T)) : result :=
    if all_finite pts then Ok else Err (nonfinite_tag e) 0.
  (* HighestDensityContour.cumsum_biggest_until: np.isnan(flat_array).any() *)
  Variable isnan : T -> bool.
  Definition validate_no_nan (cells : list T) : result :=
    if existsb isnan cells then Err CumsumNan 0 else Ok.
End Points.

Definition is_finite (x : float) : bool :=
  match classify x with NaN | PInf | NInf => false | _ => true end.
Definition is_nan (x : float) : bool :=
  match classify x with NaN => true | _ => false end.
Definition validate_points_f := validate_points float is_finite.
Definition validate_no_nan_f := validate_no_nan float is_nan.

(* ------------------------------------------------------------------ highest density contour *)
Inductive limentry := LScalar | LTuple (n : nat).     (* entry of limits: not iterable / iterable of List.length n *)
Inductive deltasv := DNone | DScalar | DList (n : nat).

Definition check_default_delta (i : nat) (e : limentry) : result :=   (* limits[i][1] - limits[i][0] *)
  match e with
  | LScalar => Err LimitSubscript i
  | LTuple n => if n <? 2 then Err LimitIndex i else Ok
  end.

Definition check_limit_tuple (i : nat) (e : limentry) : result :=
  match e with
  | LTuple 2 => Ok
  | _ => Err LimitTuple i
  end.

(* limits = None: computed by the code, always n_dim pairs *)
Definition validate_hdc_grid (n_dim : nat) (limits : option (list limentry)) (deltas : deltasv) (pdf_nan : bool) : result :=
  let ls := match limits with Some l => l | None => repeat (LTuple 2) n_dim end in
  and_then (if List.length ls =? n_dim then Ok else Err LimitsLength 0)
 (and_then (match deltas with
       | DNone => first_err_from 0 check_default_delta ls
       | DScalar => Ok
       | DList k => if k =? n_dim then Ok else Err DeltasLength 0
       end)
 (and_then (first_err_from 0 check_limit_tuple ls)
      (if pdf_nan then Err PdfNan 0 else Ok))).

(* ------------------------------------------------------------------ dimension / type guards *)
Definition validate_dim2 (k : contour2d) (n_dim : nat) : result :=
  if n_dim =? 2 then Ok else Err (Not2D k) 0.

Inductive modelkind := MKGlobalHierarchical | MKTransformed | MKOther.
Definition validate_iform_model (mk : modelkind) : result :=
  match mk with MKOther => Err ModelType 0 | _ => Ok end.

(* ------------------------------------------------------------------ a whole session *)
Inductive phase := PhSlicers | PhModel | PhFit | PhEval | PhContour.

Inductive contour_req :=
  | ReqHDC (limits : option (list limentry)) (deltas : deltasv) (pdf_nan : bool)
  | Req2D (k : contour2d)
  | ReqIFORM (mk : modelkind).

Record scenario := mkscenario {
  sc_descs : list desc;
  sc_fit : option fit_input;
  sc_points : option (evalpoint * list (list float));   (* entry point, points *)
  sc_contour : option contour_req
}.

Definition validate_slicers (ds : list desc) : result :=
  first_err_from 0 (fun i d => match d_intervals d with Some s => validate_slicer_init i s | None => Ok end) ds.

Definition validate_contour (n_dim : nat) (c : contour_req) : result :=
  match c with
  | ReqHDC l d nan => validate_hdc_grid n_dim l d nan
  | Req2D k => validate_dim2 k n_dim
  | ReqIFORM mk => validate_iform_model mk
  end.

Definition opt_result {A} (f : A -> result) (o : option A) : result :=
  match o with Some a => f a | None => Ok end.

Definition in_phase (p : phase) (r : result) : option (phase * tag * nat) :=
  match r with Ok => None | Err t pos => Some (p, t, pos) end.

Definition orelse {A} (a b : option A) : option A := match a with Some _ => a | None => b end.

(* slicers are constructed first, then the model, then fit / evaluation / contour are called;
   [None] = every step returns a result *)
Definition pipeline (sc : scenario) : option (phase * tag * nat) :=
  orelse (in_phase PhSlicers (validate_slicers (sc_descs sc)))
 (orelse (in_phase PhModel (validate_model (sc_descs sc)))
 (orelse (in_phase PhFit (opt_result (validate_fit (sc_descs sc)) (sc_fit sc)))
 (orelse (in_phase PhEval (opt_result (fun p => validate_points_f (fst p) (snd p)) (sc_points sc)))
         (in_phase PhContour (opt_result (validate_contour (List.length (sc_descs sc))) (sc_contour sc)))))).

(* what the harness compares: phase, exception class, raising function, check, dimension *)
Definition observe (sc : scenario) : option (phase * exc * site * tag * nat) :=
  match pipeline sc with
  | None => None
  | Some (p, t, pos) => Some (p, exc_of t, site_of t, t, pos)
  end.
