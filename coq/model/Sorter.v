(* Executable model of virocon/utils.py sort_points_to_form_continuous_line (as repaired for C15):
     2-nearest-neighbour graph (sklearn: oracle) -> undirected graph with networkx' adjacency order ->
     depth-first preorder from a start node; when the start's connected component is exhausted the walk
     continues from the unvisited point nearest to the last visited one, until every point is visited;
     search_for_optimal_start: the start whose walk has the smallest sum of squared step lengths (first minimum).
   Generic part: any node type / adjacency / distance; binary64 instance below.  No proofs in this file. *)
From Coq Require Import List Bool Arith ZArith PrimFloat.
From V.base Require Import FloatBits.
From V.model Require Import Hdc.
Import ListNotations.

Section Sorter.
  Variable V : Type.
  Variable veqb : V -> V -> bool.
  Variable T : Type.                  (* squared distances, costs *)
  Variable ltb : T -> T -> bool.
  Variable inf : T.
  Variable tsum : list T -> T.        (* numpy's sum of a 1-D array *)
  Variable nodes : list V.            (* 0 .. n-1 *)
  Variable adj : V -> list V.         (* neighbours in networkx' iteration order *)
  Variable d2 : V -> V -> T.          (* squared euclidean distance of two points *)

  Definition mem (v : V) (l : list V) : bool := existsb (veqb v) l.

  (* nx.dfs_preorder_nodes: iterative depth-first search; [visited] is kept in reverse visiting order *)
  Fixpoint dfs (fuel : nat) (stack visited : list V) : option (list V) :=
    match fuel with
    | 0 => None
    | S f => match stack with
             | [] => Some visited
             | v :: st => if mem v visited then dfs f st visited else dfs f (adj v ++ st) (v :: visited)
             end
    end.

  Definition unvisited (visited : list V) : list V := filter (fun v => negb (mem v visited)) nodes.

  (* np.argmin: first minimum *)
  Definition argmin (f : V -> T) (c : V) (cs : list V) : V :=
    fold_left (fun best x => if ltb (f x) (f best) then x else best) cs c.

  (* while len(order) < n: continue from the unvisited point nearest to order[-1] *)
  Fixpoint sweep (k fuel : nat) (visited : list V) : option (list V) :=
    match unvisited visited with
    | [] => Some visited
    | c :: cs =>
        match k with
        | 0 => None
        | S k' =>
            let s := argmin (d2 (hd c visited)) c cs in
            match dfs fuel [s] visited with
            | None => None
            | Some v' => sweep k' fuel v'
            end
        end
    end.

  Definition path (fuel : nat) (start : V) : option (list V) :=
    match dfs fuel [start] [] with
    | None => None
    | Some v => option_map (@rev V) (sweep (length nodes) fuel v)
    end.

  (* (((ordered[:-1] - ordered[1:]) ** 2).sum(1)).sum() *)
  Fixpoint steps (p : list V) : list T :=
    match p with a :: ((b :: _) as tl) => d2 a b :: steps tl | _ => [] end.
  Definition cost (p : list V) : T := tsum (steps p).

  (* mindist = inf; minidx = 0; for i: if cost_i < mindist: ... *)
  Fixpoint best_start (fuel : nat) (cands : list V) (mind : T) (best : V) : option V :=
    match cands with
    | [] => Some best
    | i :: cs => match path fuel i with
                 | None => None
                 | Some p => if ltb (cost p) mind then best_start fuel cs (cost p) i else best_start fuel cs mind best
                 end
    end.

  Definition sort_points (search : bool) (fuel : nat) : option (list V) :=
    match nodes with
    | [] => Some []
    | first :: _ =>
        if search then
          match best_start fuel nodes inf first with None => None | Some s => path fuel s end
        else path fuel first
    end.

  (* enough for every walk: one step per stack entry; every node pushes its neighbours once *)
  Definition fuel_bound : nat := 2 + length nodes + fold_right (fun v s => length (adj v) + s) 0 nodes.
End Sorter.

(* ------------------------------------------------------------------ networkx graph from the kNN lists *)
(* nx.from_scipy_sparse_array(kneighbors_graph): the CSR rows are read in order, edge (i, j) is inserted into the
   adjacency dicts of both i and j; a dict keeps the first insertion position of a key *)
Definition edge_stream (nbr : list (list Z)) : list (Z * Z) :=
  flat_map (fun p => map (fun j => (fst p, j)) (snd p)) (combine (map Z.of_nat (seq 0 (length nbr))) nbr).
Fixpoint dedupZ (l : list Z) (seen : list Z) : list Z :=
  match l with
  | [] => []
  | x :: l' => if existsb (Z.eqb x) seen then dedupZ l' seen else x :: dedupZ l' (x :: seen)
  end.
Definition adj_of (es : list (Z * Z)) (u : Z) : list Z :=
  dedupZ (flat_map (fun e => if Z.eqb (fst e) u then [snd e] else if Z.eqb (snd e) u then [fst e] else []) es) [].
Definition adj_table (nbr : list (list Z)) : list (list Z) :=
  let es := edge_stream nbr in map (fun i => adj_of es (Z.of_nat i)) (seq 0 (length nbr)).

(* ------------------------------------------------------------------ binary64 instance *)
Local Open Scope float_scope.

(* numpy pairwise summation (umath loops, PW_BLOCKSIZE = 128, 8 accumulators) *)
Fixpoint blk8 (fuel : nat) (r l : list float) : list float * list float :=
  match fuel with
  | 0 => (r, l)
  | S f => if (8 <=? length l)%nat then blk8 f (map (fun p => fst p + snd p) (combine r (firstn 8 l))) (skipn 8 l)
           else (r, l)
  end.
Definition block_sum (l : list float) : float :=
  let '(r, rest) := blk8 (length l) (firstn 8 l) (skipn 8 l) in
  let g i := nth i r 0 in
  fold_left PrimFloat.add rest (((g 0%nat + g 1%nat) + (g 2%nat + g 3%nat)) + ((g 4%nat + g 5%nat) + (g 6%nat + g 7%nat))).
Fixpoint pairwise (fuel : nat) (l : list float) : float :=
  let n := length l in
  if (n <? 8)%nat then fold_left PrimFloat.add l 0
  else if (n <=? 128)%nat then block_sum l
  else match fuel with
       | 0 => nan
       | S f => let h := (n / 2)%nat in let n2 := (h - h mod 8)%nat in
                pairwise f (firstn n2 l) + pairwise f (skipn n2 l)
       end.
(* arr.sum() of a contiguous float64 vector: initial 0.0 *)
Definition np_sum (l : list float) : float := 0 + pairwise 64 l.

Definition fd2 (xs ys : list float) (a b : Z) : float :=
  let ax := nth (Z.to_nat a) xs nan in let ay := nth (Z.to_nat a) ys nan in
  let bx := nth (Z.to_nat b) xs nan in let by_ := nth (Z.to_nat b) ys nan in
  (ax - bx) * (ax - bx) + (ay - by_) * (ay - by_).

Definition znodes (n : nat) : list Z := map Z.of_nat (seq 0 n).

(* the sorter on points (xs, ys) with recorded kNN lists nbr (row i = the 2 nearest neighbours of point i) *)
Definition f_sort_points (xs ys : list float) (nbr : list (list Z)) (search : bool) : option (list Z) :=
  let n := length xs in
  let tbl := adj_table nbr in
  let adj := fun v : Z => nth (Z.to_nat v) tbl [] in
  sort_points Z Z.eqb float PrimFloat.ltb infinity np_sum (znodes n) adj (fd2 xs ys) search
              (fuel_bound Z (znodes n) adj).

(* ------------------------------------------------------------------ self.coordinates of HighestDensityContour *)
(* per-label coordinate sets -> one array (n-D), the sorted line (one region, 2-D) or one set per region *)
Inductive final_coords :=
| FOne (pts : list (list float))
| FMany (sets : list (list (list float)))
| FSorterFailed.

Definition column (k : nat) (p : list (list float)) : list float := map (fun r => nth k r nan) p.
Definition take_rows (p : list (list float)) (order : list Z) : list (list float) :=
  map (fun k => nth (Z.to_nat k) p []) order.

Definition f_hdc_coordinates (n_dim : nat) (sh : list nat) (labels : list nat) (n_modes : nat)
           (coords : list (list float)) (nbr : list (list Z)) : final_coords :=
  match dispatch n_dim (map (region_coords nan sh coords) (regions labels n_modes)) with
  | ManyRegions s => FMany s
  | OneRegion p => FOne p
  | SortedLine p =>
      match f_sort_points (column 0 p) (column 1 p) nbr true with
      | None => FSorterFailed
      | Some order => FOne (take_rows p order)
      end
  end.

(* the walk as it was before the repair: the start node's component only (kept for the refutation in props/C15.v) *)
Definition unrepaired_path (nbr : list (list Z)) (start : Z) : option (list Z) :=
  let tbl := adj_table nbr in
  option_map (@rev Z) (dfs Z Z.eqb (fun v => nth (Z.to_nat v) tbl []) 100 [start] []).
