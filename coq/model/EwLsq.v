(* Hand model of ExponentiatedWeibullDistribution._fit_lsq / _estimate_alpha_beta / _wlsq_error
   (virocon/distributions.py), generic over NumOps; tied to the code by the correspondence run of C13. *)
From Coq Require Import List Bool ZArith QArith PrimFloat.
From V.base Require Import Num.
Import ListNotations.
Set Implicit Arguments.

Inductive wkind := WNone | WLinear | WQuadratic | WCubic | WArray.

Section Lsq.
  Context {T : Type} (N : NumOps T).
  Notation "a +. b" := (n_add N a b) (at level 50, left associativity).
  Notation "a -. b" := (n_sub N a b) (at level 50, left associativity).
  Notation "a *. b" := (n_mul N a b) (at level 40, left associativity).
  Notation "a /. b" := (n_div N a b) (at level 40, left associativity).
  Definition zero := n_Z N 0.
  Definition sum (l : list T) : T := fold_right (fun x acc => x +. acc) zero l.

  (* observations in the linearised space: (weight, p_star, x_star) *)
  Definition obs := (T * T * T)%type.
  Definition W (o : obs) := fst (fst o). Definition P (o : obs) := snd (fst o). Definition X (o : obs) := snd o.

  (* weights are normalised where they are used, so that any positive scaling gives the same estimate *)
  Definition normalise (l : list obs) : list obs :=
    let s := sum (map W l) in map (fun o => (W o /. s, P o, X o)) l.

  (* the closed-form estimate exactly as written in _estimate_alpha_beta (weights summing to one) *)
  Definition est_code (l : list obs) : T * T * T * T :=
    let pbar := sum (map (fun o => W o *. P o) l) in
    let xbar := sum (map (fun o => W o *. X o) l) in
    let dividend := sum (map (fun o => W o *. P o *. X o) l) -. pbar *. xbar in
    let divisor := sum (map (fun o => W o *. n_powZ N (P o) 2) l) -. n_powZ N pbar 2 in
    let b_hat := dividend /. divisor in
    let a_hat := xbar -. b_hat *. pbar in
    (a_hat, b_hat, dividend, divisor).

  Definition estimate (l : list obs) : T * T * T * T := est_code (normalise l).

  (* alpha = 10^a_hat, beta = divisor / dividend (= 1 / b_hat) *)
  Definition alpha_beta (l : list obs) : T * T :=
    let '(a_hat, _, dividend, divisor) := estimate l in (n_rpow N (n_Z N 10) a_hat, divisor /. dividend).

  (* ---- _fit_lsq skeleton *)
  (* weight keywords, applied to the SORTED sample *)
  Definition kw_weights (k : wkind) (x : list T) (arr : list T) : list T :=
    match k with
    | WNone => map (fun _ => n_Z N 1) x
    | WLinear => let s := sum x in map (fun v => v /. s) x
    | WQuadratic => let s := sum (map (fun v => n_powZ N v 2) x) in map (fun v => n_powZ N v 2 /. s) x
    | WCubic => let s := sum (map (fun v => n_powZ N v 3) x) in map (fun v => n_powZ N v 3 /. s) x
    | WArray => arr
    end.
  (* plotting positions p_i = (i - 0.5)/n, i = 1..n *)
  Definition plotting (n : nat) : list T :=
    map (fun i => (n_Z N (Z.of_nat (S i)) -. n_lit N (1 # 2)%Q 0x1p-1%float) /. n_Z N (Z.of_nat n)) (seq 0 n).
  (* zero observations are removed together with their plotting position and weight *)
  Definition nonzero (x : T) : bool := negb (n_leb N x zero && n_leb N zero x).
  Definition keep_nonzero {A} (xs : list T) (l : list A) : list A :=
    map snd (filter (fun p => nonzero (fst p)) (combine xs l)).
End Lsq.

(* branches of _fit_lsq on the set of fixed parameters *)
Inductive lsq_branch := FixedDelta | FreeDelta | NotImplemented.
Definition lsq_dispatch (f_alpha f_beta f_delta : bool) : lsq_branch :=
  if f_alpha || f_beta || f_delta then
    (if f_delta && negb (f_alpha || f_beta) then FixedDelta else NotImplemented)
  else FreeDelta.
