(* C16: closed-form identities of the GENERATED variable transformations (coq/gen/VariableTransform.v,
   coq/gen/Predefined.v), exact reals. *)
From Coq Require Import QArith Qreals Reals Lra Lia Psatz List.
From Coquelicot Require Import Coquelicot.
From V.base Require Import Num.
From V.gen Require Import VariableTransform Predefined.
From V.model Require Import Transformed.
Import ListNotations.
Local Open Scope R_scope.
Notation RN := ROps.

Definition factor : R := vt_factor RN.
Lemma factor_eq : factor = 2 * PI / Q2R (981 # 100)%Q.
Proof. reflexivity. Qed.
Lemma g_pos : 0 < Q2R (981 # 100)%Q.
Proof. unfold Q2R. cbn. lra. Qed.
Lemma factor_pos : 0 < factor.
Proof. rewrite factor_eq. apply Rdiv_lt_0_compat; [pose proof PI_RGT_0; lra|apply g_pos]. Qed.

Ltac unf := unfold vt_hs_tz_to_s_d, vt_s_d_to_hs_tz, vt_hs_tz_to_hs_s, vt_hs_s_to_hs_tz, vt_hs_tz_to_s_tz, vt_s_tz_to_hs_tz,
            vt_factor_sqrt; cbn [n_add n_sub n_mul n_div n_sqrt n_powZ n_Z ROps Z.to_nat Pos.to_nat Pos.iter_op Nat.add fst snd];
            change (Pos.to_nat 2) with 2%nat; change (Pos.to_nat 3) with 3%nat; fold factor.

(* ---- (hs, tz) <-> (s, d) *)
Lemma inner_sqrt hs tz : 0 < hs -> 0 < tz ->
  sqrt (16 * sqrt (hs * hs + tz * tz / 2) ^ 2 * (factor * hs / (tz * tz)) ^ 2 + factor ^ 2) = factor * (4 * hs * hs + tz * tz) / (tz * tz).
Proof.
  intros Hh Ht. pose proof factor_pos as Hf.
  assert (Hpos : 0 <= hs * hs + tz * tz / 2) by nra.
  replace (sqrt (hs * hs + tz * tz / 2) ^ 2) with (hs * hs + tz * tz / 2)
    by (rewrite <- Rsqr_pow2; unfold Rsqr; rewrite sqrt_sqrt; auto).
  apply sqrt_lem_1.
  - assert (0 <= (factor * hs / (tz * tz)) ^ 2) by (apply pow2_ge_0). nra.
  - apply Rmult_le_pos; [nra|]. apply Rlt_le, Rinv_0_lt_compat. nra.
  - field. lra.
Qed.

Theorem roundtrip_hs_tz_via_s_d hs tz : 0 < hs -> 0 < tz ->
  (let '(s, d) := vt_hs_tz_to_s_d RN hs tz in vt_s_d_to_hs_tz RN s d) = (hs, tz).
Proof.
  intros Hh Ht. pose proof factor_pos as Hf. pose proof (inner_sqrt hs tz Hh Ht) as Hs. unf.
  change (IZR 16) with 16. change (IZR 4) with 4. change (IZR 2) with 2. change (IZR 1) with 1.
  rewrite Hs. f_equal.
  - field. lra.
  - replace (factor * (factor * (4 * hs * hs + tz * tz) / (tz * tz)) / (factor * hs / (tz * tz)) ^ 2 -
       factor ^ 2 / (factor * hs / (tz * tz)) ^ 2) with ((2 * tz) * (2 * tz)) by (field; lra).
    rewrite sqrt_square by lra. lra.
Qed.

(* the sixth composition: (s, d) -> (hs, tz) -> (s, d) *)
Theorem roundtrip_s_d_via_hs_tz s d : 0 < s -> 0 < d ->
  (let '(hs, tz) := vt_s_d_to_hs_tz RN s d in vt_hs_tz_to_s_d RN hs tz) = (s, d).
Proof.
  intros Hs Hd. pose proof factor_pos as Hf. unf.
  change (IZR 16) with 16. change (IZR 4) with 4. change (IZR 2) with 2. change (IZR 1) with 1.
  set (Q := 16 * d ^ 2 * s ^ 2 + factor ^ 2).
  assert (HQ : 0 < Q) by (unfold Q; assert (0 < d ^ 2 * s ^ 2) by (apply Rmult_lt_0_compat; apply pow_lt; assumption); nra).
  set (Rt := sqrt Q).
  assert (HR2 : Rt * Rt = Q) by (apply sqrt_sqrt; lra).
  assert (HRpos : 0 < Rt) by (apply sqrt_lt_R0; exact HQ).
  assert (HRf : factor < Rt).
  { apply Rsqr_incrst_0; try lra. unfold Rsqr. rewrite HR2. unfold Q.
    assert (0 < d ^ 2 * s ^ 2) by (apply Rmult_lt_0_compat; apply pow_lt; assumption). nra. }
  set (X := factor * Rt / s ^ 2 - factor ^ 2 / s ^ 2).
  assert (HX : X = factor * (Rt - factor) / s ^ 2) by (unfold X; field; lra).
  assert (HXpos : 0 < X).
  { rewrite HX. apply Rdiv_lt_0_compat; [|apply pow_lt; exact Hs]. apply Rmult_lt_0_compat; lra. }
  assert (Htz2 : 1 / 2 * sqrt X * (1 / 2 * sqrt X) = X / 4).
  { replace (1 / 2 * sqrt X * (1 / 2 * sqrt X)) with (sqrt X * sqrt X / 4) by field. rewrite sqrt_sqrt by lra. reflexivity. }
  f_equal.
  - rewrite Htz2, HX. field. repeat split; lra.
  - rewrite Htz2, HX.
    replace ((Rt - factor) / (4 * s) * ((Rt - factor) / (4 * s)) + factor * (Rt - factor) / s ^ 2 / 4 / 2)
      with ((Rt * Rt - factor * factor) / (16 * s ^ 2)) by (field; lra).
    rewrite HR2. unfold Q. replace ((16 * d ^ 2 * s ^ 2 + factor ^ 2 - factor * factor) / (16 * s ^ 2)) with (d * d) by (field; lra).
    apply sqrt_square. lra.
Qed.

(* ---- (hs, tz) <-> (hs, s) *)
Theorem roundtrip_hs_tz_via_hs_s hs tz : 0 < hs -> 0 < tz ->
  (let '(h, s) := vt_hs_tz_to_hs_s RN hs tz in vt_hs_s_to_hs_tz RN h s) = (hs, tz).
Proof.
  intros Hh Ht. pose proof factor_pos as Hf. unf. f_equal.
  replace (hs / (factor * hs / (tz * tz))) with (tz * tz / factor) by (field; lra).
  rewrite <- sqrt_mult_alt by lra. replace (factor * (tz * tz / factor)) with (tz * tz) by (field; lra).
  apply sqrt_square. lra.
Qed.
Theorem roundtrip_hs_s_via_hs_tz hs s : 0 < hs -> 0 < s ->
  (let '(h, tz) := vt_hs_s_to_hs_tz RN hs s in vt_hs_tz_to_hs_s RN h tz) = (hs, s).
Proof.
  intros Hh Hs. pose proof factor_pos as Hf. unf. f_equal.
  assert (Hq : 0 < hs / s) by (apply Rdiv_lt_0_compat; assumption).
  replace (sqrt factor * sqrt (hs / s) * (sqrt factor * sqrt (hs / s))) with ((sqrt factor * sqrt factor) * (sqrt (hs / s) * sqrt (hs / s))) by ring.
  rewrite !sqrt_sqrt by lra. field. lra.
Qed.

(* ---- (hs, tz) <-> (s, tz) *)
Theorem roundtrip_hs_tz_via_s_tz hs tz : 0 < hs -> 0 < tz ->
  (let '(s, t) := vt_hs_tz_to_s_tz RN hs tz in vt_s_tz_to_hs_tz RN s t) = (hs, tz).
Proof. intros Hh Ht. pose proof factor_pos as Hf. unf. f_equal. field. lra. Qed.
Theorem roundtrip_s_tz_via_hs_tz s tz : 0 < s -> 0 < tz ->
  (let '(h, t) := vt_s_tz_to_hs_tz RN s tz in vt_hs_tz_to_s_tz RN h t) = (s, tz).
Proof. intros Hh Ht. pose proof factor_pos as Hf. unf. f_equal. field. lra. Qed.

(* ---- the transformation triples of the predefined transformed models *)
Section Triple.
  Notation TrW := (pd_get_Windmeier_EW_Hs_S_transform RN).
  Notation InvW := (pd_get_Windmeier_EW_Hs_S_inv_transform RN).
  Notation JacW := (pd_get_Windmeier_EW_Hs_S_jacobian RN).
  Lemma Tr_eq hs tz : TrW (hs, tz) = (hs, factor * hs / (tz * tz)).
  Proof. unfold pd_get_Windmeier_EW_Hs_S_transform. unf. reflexivity. Qed.
  Theorem triple_inverse hs tz : 0 < hs -> 0 < tz -> InvW (TrW (hs, tz)) = (hs, tz).
  Proof. intros Hh Ht. rewrite Tr_eq. unfold pd_get_Windmeier_EW_Hs_S_inv_transform. cbn [fst snd].
    pose proof (roundtrip_hs_tz_via_hs_s hs tz Hh Ht) as R. unfold vt_hs_tz_to_hs_s in R. cbn [n_div n_mul ROps] in R. fold factor in R.
    destruct (vt_hs_s_to_hs_tz RN hs (factor * hs / (tz * tz))) as [a b]. exact R. Qed.
  (* the first coordinate is unchanged, so |det D(transform)| = |d s / d tz| *)
  Theorem triple_first_coordinate hs tz : fst (TrW (hs, tz)) = hs.
  Proof. rewrite Tr_eq. reflexivity. Qed.
  Theorem triple_jacobian hs tz : 0 < hs -> 0 < tz ->
    is_derive (fun t => snd (TrW (hs, t))) tz (- JacW (hs, tz)) /\ Rabs (- JacW (hs, tz)) = JacW (hs, tz).
  Proof.
    intros Hh Ht. pose proof factor_pos as Hf.
    assert (J : JacW (hs, tz) = 2 * factor * hs / tz ^ 3).
    { unfold pd_get_Windmeier_EW_Hs_S_jacobian. cbn [fst snd n_div n_mul n_powZ n_Z ROps Z.to_nat]. change (Pos.to_nat 3) with 3%nat. fold factor. reflexivity. }
    split.
    - apply (is_derive_ext (fun t => factor * hs / (t * t))). { intros t. rewrite Tr_eq. reflexivity. }
      rewrite J. auto_derive. { nra. } field. lra.
    - rewrite Rabs_Ropp. apply Rabs_pos_eq. rewrite J. apply Rlt_le, Rdiv_lt_0_compat; [nra|]. apply pow_lt. exact Ht.
  Qed.
  (* both predefined transformed models use the same triple *)
  Lemma triples_agree x : pd_get_Nonzero_EW_Hs_S_transform RN x = TrW x /\ pd_get_Nonzero_EW_Hs_S_inv_transform RN x = InvW x /\
                          pd_get_Nonzero_EW_Hs_S_jacobian RN x = JacW x.
  Proof. repeat split; reflexivity. Qed.
End Triple.

(* ---- TransformedModel: change-of-variables density, samples are inverse-transformed base samples *)
Section TMP.
  Variable base_pdf : R * R -> R.
  Notation TrW := (pd_get_Windmeier_EW_Hs_S_transform RN).
  Notation InvW := (pd_get_Windmeier_EW_Hs_S_inv_transform RN).
  Notation JacW := (pd_get_Windmeier_EW_Hs_S_jacobian RN).
  Theorem tm_pdf_is_pushforward hs tz : 0 < hs -> 0 < tz ->
    exists dsdtz, is_derive (fun t => snd (TrW (hs, t))) tz dsdtz /\ fst (TrW (hs, tz)) = hs /\
      tm_pdf RN base_pdf TrW JacW (hs, tz) = base_pdf (TrW (hs, tz)) * Rabs dsdtz.
  Proof. intros Hh Ht. destruct (triple_jacobian hs tz Hh Ht) as [D A]. exists (- JacW (hs, tz)). split; [exact D|]. split; [apply triple_first_coordinate|].
    unfold tm_pdf. cbn [n_mul ROps]. rewrite A. reflexivity. Qed.
  Theorem tm_draw_spec (bs : list (R * R)) : tm_draw InvW bs = map InvW bs /\ length (tm_draw InvW bs) = length bs.
  Proof. split; [reflexivity|apply map_length]. Qed.
  Theorem tm_draw_roundtrip (bs : list (R * R)) : List.Forall (fun x => 0 < fst x /\ 0 < snd x) bs ->
    tm_draw InvW (map TrW bs) = bs.
  Proof. intros H. unfold tm_draw. rewrite map_map. induction H as [|[hs tz] l [A B] _ IH]; [reflexivity|]. cbn [map fst snd] in *.
    rewrite IH. f_equal. apply triple_inverse; assumption. Qed.
  Theorem tm_empirical_count_le (sample : list (R * R)) x : (tm_empirical_count RN sample x <= length sample)%nat.
  Proof. unfold tm_empirical_count. induction sample as [|a l IH]; cbn [filter length]; [lia|]. destruct (leq_all RN a x); cbn [length]; lia. Qed.
End TMP.
