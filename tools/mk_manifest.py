"""Regenerate MANIFEST.json from tools/claims.json (claimed checks) + properties.jsonl (the rest -> not_applicable)."""
import json, os
V = os.path.dirname(os.path.dirname(os.path.abspath(__file__)))
claims = json.load(open(os.path.join(V, "tools", "claims.json")))
props = [json.loads(l)["id"] for l in open(os.path.join(V, "properties.jsonl"))]
checks, na = [], []
for p in props:
    c = claims["claimed"].get(p)
    if c:
        checks.append({"property_id": p, "quick_cmd": "./check.sh %s quick" % p, "thorough_cmd": "./check.sh %s thorough" % p,
                       "evidence_file": "evidence/%s.json" % p, "replay_cmd_template": "./check.sh replay {path}",
                       "engine": "coq-models",
                       "level_claimed": {"category": "proof", "text": c["text"], "design_ref": "DESIGN.md section 6, %s" % p},
                       "level_note": c["note"], "technique": c.get("technique", "Coq proof over a model tied to the code by vm_compute correspondence + property-oracle search")})
    else:
        na.append({"property_id": p, "reason": claims["not_applicable"].get(p, "check not built yet in this session (no claim is made)")})
m = {"version": 1, "setup_cmd": "./check.sh setup",
     "hooks": claims["hooks"],
     "engines": [{"name": "coq-models", "path": "coq/", "serves_properties": [c["property_id"] for c in checks],
                  "kind_free_text": "Coq 8.16.1 models, lemmas and property theorems; executable instances evaluated by vm_compute on generated case files; Python harness drives the real implementation"}],
     "checks": checks, "not_applicable": na, "notes": "see DESIGN.md; known findings in known_findings.json"}
json.dump(m, open(os.path.join(V, "MANIFEST.json"), "w"), indent=1)
print("claimed:", [c["property_id"] for c in checks])
