(* Executable model of virocon/contours.py DirectSamplingContour (__init__ defaults and _compute), for the
   code after the repair of lead L9 (the number of directions is the integer 360/deg_step, the last tangent
   line is intersected with the first one).  No proofs here.

   Generic part (Section Gen): parametric in the number type, its arithmetic, the cos / sin engines and the
   quantile engine.  The quantile engine enters as the function  C : angle -> offset  ("C(theta)" of Huseby et
   al.): the code computes  r_i = np.quantile(x*cos a_i + y*sin a_i, 1-alpha) ; the contract of np.quantile
   (linear-interpolated order statistic of the projection [proj xs ys a]) is the hypothesis of the theorems
   and is checked on every correspondence case by the executable [quantile_okb] below.
   Binary64 instance below the section: cos / sin / quantile are tables recorded from the run. *)
From Coq Require Import List Bool Arith ZArith PrimFloat FloatOps SpecFloat.
From V.base Require Import FloatBits.
Import ListNotations.

(* number structure: arithmetic, order, constants and the cos / sin engines (oracles) *)
Record ops (T : Type) := mkops {
  add : T -> T -> T; sub : T -> T -> T; mul : T -> T -> T; div : T -> T -> T; opp : T -> T; absf : T -> T;
  ofn : nat -> T; leb : T -> T -> bool; ltb : T -> T -> bool;
  pi : T; half : T; one : T; c100 : T; c180 : T;
  cosf : T -> T; sinf : T -> T;              (* np.cos, np.sin : oracles *)
  floor_nat : T -> nat;                      (* floor of a non-negative number *)
  trunc : T -> Z;                            (* Python int() *)
  close : T -> T -> T -> bool                (* close scale a b: equal up to rounding relative to scale *)
}.
Arguments add {T}. Arguments sub {T}. Arguments mul {T}. Arguments div {T}. Arguments opp {T}. Arguments absf {T}.
Arguments ofn {T}. Arguments leb {T}. Arguments ltb {T}. Arguments pi {T}. Arguments half {T}. Arguments one {T}.
Arguments c100 {T}. Arguments c180 {T}. Arguments cosf {T}. Arguments sinf {T}. Arguments floor_nat {T}.
Arguments trunc {T}. Arguments close {T}.

Section Gen.
  Variable T : Type.
  Variable O : ops T.
  Variable C : T -> T.       (* angle |-> np.quantile(projection on that angle, 1-alpha) : oracle *)
  Local Notation "x + y" := (add O x y).
  Local Notation "x - y" := (sub O x y).
  Local Notation "x * y" := (mul O x y).
  Local Notation "x / y" := (div O x y).

  (* rad_step = deg_step * np.pi / 180 *)
  Definition rad_step (deg_step : T) : T := deg_step * pi O / c180 O.

  (* angles = 0.5*np.pi + rad_step - rad_step*np.arange(n_angles) *)
  Definition angle (s : T) (i : nat) : T := half O * pi O + s - s * ofn O i.
  Definition angles (N : nat) (s : T) : list T := map (angle s) (seq 0 N).

  (* z = x*np.cos(a) + y*np.sin(a) *)
  Definition proj (xs ys : list T) (a : T) : list T :=
    let c := cosf O a in let s := sinf O a in
    map (fun p => fst p * c + snd p * s) (combine xs ys).

  (* intersection of the tangent lines (a1, r1) and (a2, r2), formulas as in the source *)
  Definition den (a1 a2 : T) : T := sinf O a2 * cosf O a1 - sinf O a1 * cosf O a2.
  Definition vx (a1 a2 r1 r2 : T) : T := (sinf O a2 * r1 - sinf O a1 * r2) / den a1 a2.
  Definition vy (a1 a2 r1 r2 : T) : T := (opp O (cosf O a2) * r1 + cosf O a1 * r2) / den a1 a2.
  Definition vertex (p1 p2 : T * T) : T * T :=
    (vx (fst p1) (fst p2) (snd p1) (snd p2), vy (fst p1) (fst p2) (snd p1) (snd p2)).

  (* a = concatenate(angles, [angles[0]]), r likewise; vertex i from entries i and i+1 (a[:-1] with a[1:]) *)
  Definition polygon_of (ar : list (T * T)) : list (T * T) :=
    map (fun q => vertex (fst q) (snd q)) (combine ar (tl ar ++ firstn 1 ar)).

  (* (angle, offset) pairs: r[i] = np.quantile(z_i, 1-alpha) *)
  Definition lines (N : nat) (s : T) : list (T * T) := map (fun a => (a, C a)) (angles N s).

  (* DirectSamplingContour._compute; N = int(round(360/deg_step)) is computed by the caller *)
  Definition ds_polygon (N : nat) (deg_step : T) : list (T * T) := polygon_of (lines N (rad_step deg_step)).

  (* -------- contract of np.quantile(z, p) (method 'linear'), executable form.
     h = (n-1)*p, k = floor h, g = h - k; value = s_k + g*(s_{k+1} - s_k) for the ascending order statistics s.
     The order statistics are located by counting, without sorting. *)
  Definition count_lt (z : list T) (q : T) : nat := length (filter (fun v => ltb O v q) z).
  Definition count_le (z : list T) (q : T) : nat := length (filter (fun v => leb O v q) z).
  Definition count_gt (z : list T) (q : T) : nat := length (filter (fun v => ltb O q v) z).
  Definition count_ge (z : list T) (q : T) : nat := length (filter (fun v => leb O q v) z).
  (* largest element below q / smallest element above q (dflt if none) *)
  Definition max_below (z : list T) (q dflt : T) : T :=
    fold_left (fun acc v => if ltb O v q then (if ltb O acc v then v else acc) else acc) z dflt.
  Definition min_above (z : list T) (q dflt : T) : T :=
    fold_left (fun acc v => if ltb O q v then (if ltb O v acc then v else acc) else acc) z dflt.

  Definition quantile_ok_at (z : list T) (h q : T) (neg_inf pos_inf : T) : bool :=
    let n := length z in
    let k := floor_nat O h in
    let g := h - ofn O k in
    let c1 := count_lt z q in
    let c2 := count_le z q in
    (* s_k *)
    let sk := if (k <? c1)%nat then (if (S k =? c1)%nat then Some (max_below z q neg_inf) else None)
              else if (k <? c2)%nat then Some q else None in
    (* s_{k+1} (s_k itself when k+1 = n: then g = 0) *)
    let sk1 := if (S k <? c1)%nat then None
               else if (S k <? c2)%nat then Some q
               else if (S k =? c2)%nat then (if (S k =? n)%nat then Some q else Some (min_above z q pos_inf))
               else None in
    match sk, sk1 with
    | Some a, Some b => close O (absf O a + absf O b) q (a + g * (b - a))
    | _, _ => false
    end.

  (* numpy computes the virtual index in floating point; a value of (n-1)*p within rounding of an integer may
     fall on either side, the interpolated value being continuous there: accept h, h*(1-e), h*(1+e) *)
  Definition quantile_okb (z : list T) (p q : T) (eps neg_inf pos_inf : T) : bool :=
    match z with
    | [] => false
    | _ => let h := ofn O (length z - 1)%nat * p in
           if quantile_ok_at z h q neg_inf pos_inf then true
           else if quantile_ok_at z (h * (one O - eps)) q neg_inf pos_inf then true
           else quantile_ok_at z (h * (one O + eps)) q neg_inf pos_inf
    end.

  (* -------- __init__: n = int(100/alpha) unless given; the supplied sample is used as it is, otherwise
     model.draw_sample(n) *)
  Definition sample_size (n_opt : option Z) (alpha : T) : Z :=
    match n_opt with Some n => n | None => trunc O (c100 O / alpha) end.
  Definition used_sample {S} (draw : Z -> S) (sample_opt : option S) (n_opt : option Z) (alpha : T) : S :=
    match sample_opt with Some s => s | None => draw (sample_size n_opt alpha) end.
End Gen.

(* ------------------------------------------------------------------ binary64 instance *)
Local Open Scope float_scope.

Definition fpi : float := 0x1.921fb54442d18p+1.

(* recorded engine values: association list keyed by the bits of the argument; a key the run never asked for
   gives nan (a structural disagreement) *)
(* same number, zeros of the same sign (nan is never a key) *)
Definition fkey_eq (k a : float) : bool := PrimFloat.eqb k a && PrimFloat.eqb (1 / k) (1 / a).
Fixpoint lookup (tab : list (float * float)) (a : float) : float :=
  match tab with
  | [] => nan
  | (k, v) :: tab' => if fkey_eq k a then v else lookup tab' a
  end.

(* Python round(): to nearest integer, ties to even *)
Definition round_half_even (x : float) : option Z :=
  match Prim2SF x with
  | S754_zero _ => Some 0%Z
  | S754_finite s m e =>
      let mz := Zpos m in
      let q := if (0 <=? e)%Z then (mz * 2 ^ e)%Z
               else let d := (2 ^ (- e))%Z in
                    let q0 := (mz / d)%Z in
                    let r2 := (2 * (mz mod d))%Z in
                    if (r2 <? d)%Z then q0 else if (d <? r2)%Z then (q0 + 1)%Z
                    else if Z.even q0 then q0 else (q0 + 1)%Z in
      Some (if s then (- q)%Z else q)
  | _ => None
  end.

Definition ffloor_nat (x : float) : nat := match truncZ x with Some k => Z.to_nat k | None => 0%nat end.
Definition ftruncZ (x : float) : Z := match truncZ x with Some k => k | None => 0%Z end.
(* |a - b| <= 1e-9 * scale, or the same bits *)
Definition fclose_scale (scale a b : float) : bool :=
  fbits_eq a b || PrimFloat.leb (abs (a - b)) (0x1.12e0be826d695p-30 * scale).

(* n_angles = int(round(360 / deg_step)) *)
Definition n_angles (deg_step : float) : option nat :=
  match round_half_even (360 / deg_step) with
  | Some k => if (0 <=? k)%Z then Some (Z.to_nat k) else None
  | None => None
  end.

Definition fops (ctab stab : list (float * float)) : ops float :=
  mkops float PrimFloat.add PrimFloat.sub PrimFloat.mul PrimFloat.div PrimFloat.opp PrimFloat.abs FloatBits.of_nat
        PrimFloat.leb PrimFloat.ltb fpi 0.5 1 100 180 (lookup ctab) (lookup stab) ffloor_nat ftruncZ fclose_scale.

Definition ds_angles_f (N : nat) (deg_step : float) : list float :=
  angles float (fops [] []) N (rad_step float (fops [] []) deg_step).

Definition ds_polygon_f (ctab stab qtab : list (float * float)) (N : nat) (deg_step : float) : list (float * float) :=
  ds_polygon float (fops ctab stab) (lookup qtab) N deg_step.

Definition proj_f (ctab stab : list (float * float)) (xs ys : list float) (a : float) : list float :=
  proj float (fops ctab stab) xs ys a.

Definition quantile_ok_f (z : list float) (p q : float) : bool :=
  quantile_okb float (fops [] []) z p q 0x1p-40 neg_infinity infinity.

(* every recorded offset is the (1-alpha)-quantile of the model's projection on its angle *)
Definition ds_contract_f (ctab stab qtab : list (float * float)) (N : nat) (deg_step alpha : float)
           (xs ys : list float) : bool :=
  forallb (fun a => quantile_ok_f (proj_f ctab stab xs ys a) (1 - alpha) (lookup qtab a)) (ds_angles_f N deg_step).

Definition ds_sample_size_f (n_opt : option Z) (alpha : float) : Z :=
  sample_size float (fops [] []) n_opt alpha.

(* the whole run: None when deg_step gives no direction count *)
Definition ds_contour_f (ctab stab qtab : list (float * float)) (deg_step : float) : option (list (float * float)) :=
  match n_angles deg_step with
  | Some N => Some (ds_polygon_f ctab stab qtab N deg_step)
  | None => None
  end.
