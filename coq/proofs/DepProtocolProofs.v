(* Lemmas for C14: the callback protocol of DependenceFunction (history theorem for every dependency
   DAG and every sequence of fit calls), the bounds conversion, the feasible set handed to scipy, and
   uniqueness of linear least squares through the normal equations. *)
From Coq Require Import List Arith Lia Bool.
From V.model Require Import DepProtocol.
Import ListNotations.

Section Protocol.
  Variables P D : Type.
  Variable n : nat.
  Variable conds : nat -> list nat.
  (* conditioners are constructor arguments of their dependents: they exist earlier *)
  Hypothesis conds_lt : forall j i, In i (conds j) -> i < j.
  Variable F : nat -> D -> P -> (nat -> P) -> P.
  (* the optimiser of j reads, besides data and start value, only the parameters of j's conditioners *)
  Hypothesis F_ext : forall j d p e1 e2, (forall i, In i (conds j) -> e1 i = e2 i) -> F j d p e1 = F j d p e2.

  Notation st := (st P D).
  Notation do_fit := (do_fit P D n conds F).
  Notation fit := (fit P D n conds F).
  Notation callback := (callback P D conds).
  Notation fit_body := (fit_body P D).
  Notation dependents := (dependents n conds).
  Notation is_cond := (is_cond conds).
  Notation set_saved := (set_saved P D).
  Notation set_may := (set_may P D).
  Notation add_fitted := (add_fitted P D).
  Notation set_params := (set_params P D).
  Notation run := (run P D n conds F).
  Notation init := (init P D conds).
  Notation last_data := (last_data D).

  Definition fitted (s : st) k := may_fit s k = true /\ saved s k <> None.
  (* j carries the result of an optimiser run on its saved data against the CURRENT parameters of its conditioners *)
  Definition consistent (s : st) k := forall d, saved s k = Some d -> exists p, params s k = F k d p (params s).
  Definition good (s : st) k := fitted s k -> consistent s k.
  Definition fc_ok (s : st) := forall k c, In c (fitted_conds s k) -> In c (conds k).
  Definition notified (s : st) i := forall k, k < n -> In i (conds k) -> may_fit s k = true.
  Definition Q (s : st) i := fitted s i -> notified s i.

  Lemma is_cond_spec i j : is_cond i j = true <-> In i (conds j).
  Proof. unfold DepProtocol.is_cond. rewrite existsb_exists. split.
    - intros [x [Hx E]]. apply Nat.eqb_eq in E. now subst.
    - intros H. exists i. split; auto. apply Nat.eqb_refl. Qed.

  Lemma dependents_spec i k : In k (dependents i) <-> k < n /\ In i (conds k).
  Proof.
    unfold DepProtocol.dependents. rewrite in_flat_map. split.
    - intros [x [Hx Hin]]. apply in_map_iff in Hin. destruct Hin as [c [E Hc]]. subst x.
      apply filter_In in Hc. destruct Hc as [Hc He]. apply Nat.eqb_eq in He. subst c.
      apply in_seq in Hx. split; [lia|exact Hc].
    - intros [Hk Hi]. exists k. split; [apply in_seq; lia|]. apply in_map_iff. exists i. split; auto.
      apply filter_In. split; auto. apply Nat.eqb_refl.
  Qed.

  Lemma upd_same {A} (f : nat -> A) k v : upd f k v k = v.
  Proof. unfold upd. now rewrite Nat.eqb_refl. Qed.
  Lemma upd_other {A} (f : nat -> A) k v x : x <> k -> upd f k v x = f x.
  Proof. intros H. unfold upd. apply Nat.eqb_neq in H. now rewrite H. Qed.

  Lemma In_set_add c j l : In c (set_add j l) -> c = j \/ In c l.
  Proof. unfold set_add. destruct (existsb (Nat.eqb j) l); [auto|]. intros H. apply in_app_or in H.
    destruct H as [H|[H|[]]]; auto. Qed.

  (* the subset test as it is written can never fail: it compares the wrong way round *)
  Lemma subset_test_true (s : st) k j : fc_ok s -> In j (conds k) ->
    subset_as_written conds (fitted_conds (add_fitted s k j) k) k = true.
  Proof.
    intros Hfc Hj. unfold subset_as_written. apply forallb_forall. intros c Hc. apply is_cond_spec.
    cbn in Hc. rewrite upd_same in Hc. apply In_set_add in Hc. destruct Hc as [->|Hc]; auto.
  Qed.

  Lemma fc_ok_add s k j : fc_ok s -> In j (conds k) -> fc_ok (add_fitted s k j).
  Proof.
    intros Hfc Hj k' c Hc. cbn in Hc. destruct (Nat.eq_dec k' k) as [->|Hk].
    - rewrite upd_same in Hc. apply In_set_add in Hc. destruct Hc as [->|Hc]; auto.
    - rewrite upd_other in Hc by exact Hk. auto.
  Qed.

  (* callback, simplified under the invariant *)
  Lemma callback_eq rec k j (s : st) : In j (conds k) -> fc_ok s ->
    callback rec k j s =
    match saved s k with
    | Some d => rec k d (set_saved (set_may (add_fitted s k j) k) k d)
    | None => Ok (set_may (add_fitted s k j) k)
    end.
  Proof.
    intros Hj Hfc. unfold DepProtocol.callback.
    assert (E : is_cond j k = true) by (apply is_cond_spec; exact Hj). rewrite E. cbn [negb].
    rewrite (subset_test_true s k j Hfc Hj).
    change (saved (set_may (add_fitted s k j) k) k) with (saved s k).
    destruct (saved s k) as [d|]; [|reflexivity].
    unfold DepProtocol.fit_body. cbn. rewrite upd_same. reflexivity.
  Qed.

  (* goodness only looks at may_fit, saved data and the parameters *)
  Lemma good_transfer (s s' : st) m :
    (may_fit s' m = true -> may_fit s m = true) -> saved s' m = saved s m -> params s' = params s ->
    good s m -> good s' m.
  Proof.
    intros Hm Hs Hp G [Hf Hsv] d Hd. rewrite Hp. rewrite Hs in Hd, Hsv. apply G; auto. split; auto.
  Qed.

  (* changing params j keeps every node that does not read j good *)
  Lemma good_set_params s j d v m : m <> j -> ~ In j (conds m) -> good s m -> good (set_params s j d v) m.
  Proof.
    intros Hm Hj G [Hf Hs] d' Hd. cbn in *. rewrite upd_other by exact Hm.
    destruct (G (conj Hf Hs) d' Hd) as [p Hp]. exists p. rewrite Hp. apply F_ext.
    intros i Hi. rewrite upd_other; auto. intro; subst; auto.
  Qed.

  Definition loop_body (f j : nat) (acc : res st) (k : nat) : res st := bind acc (callback (do_fit f) k j).

  Lemma do_fit_unfold f j d s : do_fit (S f) j d s =
    fold_left (loop_body f j) (dependents j) (Ok (set_params s j d (F j d (params s j) (params s)))).
  Proof. reflexivity. Qed.

  Lemma fold_fuel f j l : fold_left (loop_body f j) l OutOfFuel = OutOfFuel.
  Proof. induction l; simpl; auto. Qed.
  Lemma fold_assert f j l : fold_left (loop_body f j) l AssertionFailed = AssertionFailed.
  Proof. induction l; simpl; auto. Qed.

  Lemma notified_mono (s s' : st) i : (forall k, may_fit s k = true -> may_fit s' k = true) -> notified s i -> notified s' i.
  Proof. intros M N k Hk Hi. apply M. apply N; auto. Qed.

  (* the state handed to the recursive fit of dependent k inside callback *)
  Definition cb_state (s : st) k j d := set_saved (set_may (add_fitted s k j) k) k d.

  Theorem do_fit_spec : forall fuel j d s s', do_fit fuel j d s = Ok s' -> j < n ->
      saved s j = Some d -> fc_ok s ->
      (forall k, saved s' k = saved s k) /\
      (forall k, may_fit s k = true -> may_fit s' k = true) /\
      good s' j /\
      (forall m, m <> j -> m < n -> good s m -> good s' m) /\
      notified s' j /\
      (forall i, i <> j -> i < n -> Q s i -> Q s' i) /\
      fc_ok s'.
  Proof.
    induction fuel as [|f IH]; intros j d s s' H Hjn Hsj Hfc; [discriminate|].
    rewrite do_fit_unfold in H.
    set (s1 := set_params s j d (F j d (params s j) (params s))) in *.
    assert (L : forall rest acc r, fold_left (loop_body f j) rest (Ok acc) = Ok r ->
              incl rest (dependents j) ->
              (forall k, saved acc k = saved s k) ->
              (forall k, may_fit s k = true -> may_fit acc k = true) ->
              fc_ok acc ->
              good acc j ->
              (forall m, m <> j -> m < n -> ~ In m rest -> (In m (dependents j) \/ good s m) -> good acc m) ->
              (forall k, In k (dependents j) -> ~ In k rest -> may_fit acc k = true) ->
              (forall i, i <> j -> i < n -> Q s i -> Q acc i) ->
              (forall k, saved r k = saved s k) /\
              (forall k, may_fit s k = true -> may_fit r k = true) /\
              good r j /\
              (forall m, m <> j -> m < n -> (In m (dependents j) \/ good s m) -> good r m) /\
              (forall k, In k (dependents j) -> may_fit r k = true) /\
              (forall i, i <> j -> i < n -> Q s i -> Q r i) /\
              fc_ok r).
    { induction rest as [|k rest IHr]; intros acc r Hr Hincl Hsv Hmf Hfa Gj Gm Hnt HQ.
      - simpl in Hr. inversion Hr; subst. repeat split; auto.
      - assert (Hkd : In k (dependents j)) by (apply Hincl; left; reflexivity).
        assert (Hkn : k < n) by (apply dependents_spec in Hkd; tauto).
        assert (Hjk : In j (conds k)) by (apply dependents_spec in Hkd; tauto).
        assert (Hkj : k <> j) by (apply conds_lt in Hjk; lia).
        assert (Hincl' : incl rest (dependents j)) by (intros x Hx; apply Hincl; right; exact Hx).
        cbn [fold_left] in Hr. unfold loop_body at 2 in Hr. cbn [bind] in Hr.
        rewrite (callback_eq _ k j acc Hjk Hfa) in Hr.
        assert (Hfa' : fc_ok (add_fitted acc k j)) by (apply fc_ok_add; auto).
        destruct (saved acc k) as [dk|] eqn:Hk.
        + fold (cb_state acc k j dk) in Hr.
          assert (Hfc3 : fc_ok (cb_state acc k j dk)) by exact Hfa'.
          assert (Hs3 : saved (cb_state acc k j dk) k = Some dk) by (cbn; apply upd_same).
          assert (Hsv3 : forall x, saved (cb_state acc k j dk) x = saved acc x).
          { intros x. cbn. destruct (Nat.eq_dec x k) as [->|Hx]; [rewrite upd_same; auto|rewrite upd_other; auto]. }
          assert (Hmf3 : forall x, may_fit acc x = true -> may_fit (cb_state acc k j dk) x = true).
          { intros x Hx. cbn. unfold upd. destruct (Nat.eqb x k); auto. }
          assert (G3 : forall m, m <> k -> good acc m -> good (cb_state acc k j dk) m).
          { intros m Hm G. apply (good_transfer acc); auto. cbn. rewrite upd_other by exact Hm. auto. }
          destruct (do_fit f k dk (cb_state acc k j dk)) as [a2| |] eqn:Hd;
            [|rewrite fold_fuel in Hr; discriminate|rewrite fold_assert in Hr; discriminate].
          destruct (IH _ _ _ _ Hd Hkn Hs3 Hfc3) as [A1 [A2 [A3 [A4 [A5 [A6 A7]]]]]].
          assert (Mono : forall x, may_fit acc x = true -> may_fit a2 x = true) by (intros x Hx; apply A2; auto).
          apply (IHr a2 r Hr Hincl').
          * intros x. rewrite A1, Hsv3. apply Hsv.
          * intros x Hx. apply Mono. auto.
          * exact A7.
          * apply A4; auto.
          * intros m Hmj Hmn Hnr Hor. destruct (Nat.eq_dec m k) as [->|Hmk]; [exact A3|].
            apply A4; auto. apply G3; auto. apply Gm; auto. simpl. intros [E|E]; [congruence|auto].
          * intros x Hx Hnr. destruct (Nat.eq_dec x k) as [->|Hxk].
            { apply A2. cbn. apply upd_same. }
            apply Mono. apply Hnt; auto. simpl. intros [E|E]; [congruence|auto].
          * intros i Hij Hin Hq. destruct (Nat.eq_dec i k) as [->|Hik].
            { intros _. exact A5. }
            apply A6; auto. intros [F1 F2]. rewrite Hsv3 in F2. cbn in F1. rewrite upd_other in F1 by exact Hik.
            apply (notified_mono acc); [exact Hmf3|]. apply HQ; auto. split; auto.
        + set (s2 := DepProtocol.set_may P D (DepProtocol.add_fitted P D acc k j) k) in *.
          assert (Mono : forall x, may_fit acc x = true -> may_fit s2 x = true).
          { intros x Hx. cbn. unfold upd. destruct (Nat.eqb x k); auto. }
          apply (IHr s2 r Hr Hincl').
          * intros x. cbn. apply Hsv.
          * intros x Hx. apply Mono; auto.
          * exact Hfa'.
          * apply (good_transfer acc); auto. cbn. rewrite upd_other; auto.
          * intros m Hmj Hmn Hnr Hor. destruct (Nat.eq_dec m k) as [->|Hmk].
            { intros [_ Hs]. exfalso. apply Hs. exact Hk. }
            apply (good_transfer acc); auto; [cbn; rewrite upd_other; auto|].
            apply Gm; auto. simpl. intros [E|E]; [congruence|auto].
          * intros x Hx Hnr. destruct (Nat.eq_dec x k) as [->|Hxk].
            { cbn. apply upd_same. }
            apply Mono. apply Hnt; auto. simpl. intros [E|E]; [congruence|auto].
          * intros i Hij Hin Hq. destruct (Nat.eq_dec i k) as [->|Hik].
            { intros [_ Hs]. exfalso. apply Hs. exact Hk. }
            intros [F1 F2]. cbn in F1, F2. rewrite upd_other in F1 by exact Hik.
            apply (notified_mono acc); [exact Mono|]. apply HQ; auto. split; auto. }
    destruct (L (dependents j) s1 s' H) as [B1 [B2 [B3 [B4 [B5 [B6 B7]]]]]].
    - apply incl_refl.
    - intros k. reflexivity.
    - intros k Hk. exact Hk.
    - exact Hfc.
    - intros [Hf Hs] d' Hd'. cbn in *. rewrite Hsj in Hd'. inversion Hd'; subst d'.
      exists (params s j). rewrite upd_same. apply F_ext. intros i Hi. rewrite upd_other; auto.
      apply conds_lt in Hi. lia.
    - intros m Hmj Hmn Hnot [Hin|G]; [contradiction|].
      apply good_set_params; auto. intro Hc. apply Hnot. apply dependents_spec. split; auto.
    - intros k Hk Hnot. contradiction.
    - intros i Hij Hin Hq. exact Hq.
    - repeat split; auto.
      intros k Hk Hi. apply B5. apply dependents_spec. split; auto.
  Qed.

  (* enough fuel: ids strictly increase along callbacks; the assertion in callback never fires *)
  Lemma do_fit_some : forall fuel j d (s : st), n < fuel + j -> j < n -> exists s', do_fit fuel j d s = Ok s'.
  Proof.
    induction fuel as [|f IH]; intros j d s Hf Hj; [lia|].
    rewrite do_fit_unfold.
    set (s1 := set_params s j d (F j d (params s j) (params s))). clearbody s1.
    assert (Hd : forall k, In k (dependents j) -> j < k /\ k < n /\ In j (conds k)).
    { intros k Hk. apply dependents_spec in Hk. destruct Hk as [A B]. pose proof (conds_lt _ _ B). repeat split; auto. }
    revert s1. induction (dependents j) as [|k l IHl]; intros s1; [simpl; eauto|].
    cbn [fold_left]. unfold loop_body at 2. cbn [bind].
    destruct (Hd k (or_introl eq_refl)) as [K1 [K2 K3]].
    assert (IHl' : forall s1, exists s', fold_left (loop_body f j) l (Ok s1) = Ok s').
    { apply IHl. intros x Hx. apply Hd. right. exact Hx. }
    unfold DepProtocol.callback.
    assert (E : is_cond j k = true) by (apply is_cond_spec; exact K3). rewrite E. cbn [negb].
    destruct (subset_as_written conds _ k); [|apply IHl'].
    destruct (saved _ k) as [dk|]; [|apply IHl'].
    unfold DepProtocol.fit_body. destruct (may_fit _ k); [|apply IHl'].
    destruct (IH k dk (DepProtocol.set_saved P D (DepProtocol.set_may P D (DepProtocol.add_fitted P D s1 k j) k) k dk)) as [s2 E2]; [lia|lia|].
    rewrite E2. apply IHl'.
  Qed.

  (* ---------- histories ---------- *)
  Variable p0 : nat -> P.

  Definition Inv (s : st) := (forall k, k < n -> good s k) /\ (forall i, i < n -> Q s i) /\
                      (forall k, conds k = [] -> may_fit s k = true) /\ fc_ok s.

  Lemma Inv_init : Inv (init p0).
  Proof. repeat split.
    - intros k _ [_ Hs]. cbn in Hs. congruence.
    - intros i _ [_ Hs]. cbn in Hs. congruence.
    - intros k Hk. cbn. now rewrite Hk.
    - intros k c Hc. cbn in Hc. contradiction. Qed.

  Lemma fit_Inv j d s : j < n -> Inv s -> exists s', fit j d s = Ok s' /\ Inv s' /\
      saved s' j = Some d /\ (forall k, k <> j -> saved s' k = saved s k).
  Proof.
    intros Hj [I1 [I2 [I3 I4]]]. unfold DepProtocol.fit, DepProtocol.fit_body. set (s0 := set_saved s j d).
    assert (S0 : saved s0 j = Some d) by (cbn; apply upd_same).
    assert (S0' : forall k, k <> j -> saved s0 k = saved s k) by (intros k Hk; cbn; apply upd_other; exact Hk).
    assert (G0 : forall m, m <> j -> m < n -> good s0 m).
    { intros m Hm Hmn. apply (good_transfer s); auto. }
    assert (Q0 : forall i, i <> j -> i < n -> Q s0 i).
    { intros i Hi Hin [Hf Hs]. cbn in Hs. rewrite upd_other in Hs by exact Hi. apply (I2 i Hin (conj Hf Hs)). }
    assert (F0 : fc_ok s0) by exact I4.
    destruct (may_fit s0 j) eqn:Hm.
    - destruct (do_fit_some (S n) j d s0) as [s' E]; [lia|exact Hj|]. exists s'. split; [exact E|].
      destruct (do_fit_spec _ _ _ _ _ E Hj S0 F0) as [A1 [A2 [A3 [A4 [A5 [A6 A7]]]]]].
      split; [|split].
      + repeat split.
        * intros k Hk. destruct (Nat.eq_dec k j) as [->|Hkj]; [exact A3|]. apply A4; auto.
        * intros i Hi. destruct (Nat.eq_dec i j) as [->|Hij].
          { intros _. exact A5. }
          apply A6; auto.
        * intros k Hk. apply A2. cbn. apply I3. exact Hk.
        * exact A7.
      + rewrite A1. exact S0.
      + intros k Hk. rewrite A1. apply S0'. exact Hk.
    - exists s0. split; [reflexivity|]. split; [|split; auto].
      repeat split.
      + intros k Hk. destruct (Nat.eq_dec k j) as [->|Hkj]; [|apply G0; auto]. intros [Hf _]. congruence.
      + intros i Hi. destruct (Nat.eq_dec i j) as [->|Hij]; [|apply Q0; auto]. intros [Hf _]. congruence.
      + intros k Hk. cbn. apply I3. exact Hk.
      + exact F0.
  Qed.

  Lemma run_Inv : forall ops s, (forall j d, In (j, d) ops -> j < n) -> Inv s ->
    exists s', run ops s = Ok s' /\ Inv s' /\ (forall j, saved s' j = last_data ops j (saved s j)).
  Proof.
    induction ops as [|[j d] ops IH]; intros s Hb I.
    - exists s. simpl. auto.
    - destruct (fit_Inv j d s) as [s1 [E [I1 [S1 S2]]]]; [apply (Hb j d); left; reflexivity|exact I|].
      destruct (IH s1) as [s' [R [I' L]]]; [intros; eapply Hb; right; eauto|exact I1|].
      exists s'. simpl. rewrite E. cbn [bind]. split; [exact R|]. split; [exact I'|].
      intros k. rewrite L. f_equal. destruct (Nat.eqb j k) eqn:Ejk.
      + apply Nat.eqb_eq in Ejk. subst. exact S1.
      + apply Nat.eqb_neq in Ejk. apply S2. auto.
  Qed.

  (* no history runs out of fuel or trips the assertion *)
  Theorem run_ok : forall ops, (forall j d, In (j, d) ops -> j < n) -> exists s', run ops (init p0) = Ok s'.
  Proof. intros ops Hb. destruct (run_Inv ops (init p0) Hb Inv_init) as [s' [R _]]. eauto. Qed.

  (* HISTORY THEOREM: whatever the order of fit calls (and re-fits), once every function has been
     given data, each ends with the parameters of an optimiser run on its LAST data against the FINAL
     parameters of its conditioners. *)
  Theorem history : forall ops s', (forall j d, In (j, d) ops -> j < n) ->
    run ops (init p0) = Ok s' ->
    (forall j, j < n -> last_data ops j None <> None) ->
    forall j, j < n -> exists d p, last_data ops j None = Some d /\ params s' j = F j d p (params s').
  Proof.
    intros ops s' Hb R All. destruct (run_Inv ops (init p0) Hb Inv_init) as [s2 [R2 [[I1 [I2 [I3 I4]]] L]]].
    rewrite R in R2. inversion R2; subst s2. clear R2.
    assert (Sv : forall j, saved s' j = last_data ops j None) by (intros j; rewrite L; reflexivity).
    assert (Fit : forall j, j < n -> fitted s' j).
    { intros j. induction j as [j IHj] using lt_wf_ind. intros Hj. split.
      - destruct (conds j) as [|i l] eqn:Ec; [apply I3; exact Ec|].
        assert (Hi : In i (conds j)) by (rewrite Ec; left; reflexivity).
        pose proof (conds_lt _ _ Hi) as Hlt.
        apply (I2 i); [lia|apply IHj; lia|exact Hj|exact Hi].
      - rewrite Sv. apply All. exact Hj. }
    intros j Hj. destruct (last_data ops j None) as [d|] eqn:E; [|exfalso; apply (All j Hj); exact E].
    destruct (I1 j Hj (Fit j Hj) d) as [p Hp]; [rewrite Sv; exact E|].
    exists d, p. split; [reflexivity|exact Hp].
  Qed.

  (* the subset test never blocks in a reachable state *)
  Theorem subset_test_vacuous : forall ops s, (forall j d, In (j, d) ops -> j < n) -> run ops (init p0) = Ok s ->
    forall k c, In c (conds k) -> subset_as_written conds (fitted_conds (add_fitted s k c) k) k = true.
  Proof.
    intros ops s Hb R k c Hc. destruct (run_Inv ops (init p0) Hb Inv_init) as [s2 [R2 [[_ [_ [_ I4]]] _]]].
    rewrite R in R2. inversion R2; subst s2. apply subset_test_true; auto.
  Qed.

  (* partial histories: a function that was given data and whose conditioners (transitively) were all
     given data is consistent as well; stated for the common case "everything fitted" above *)

  (* ORDER INDEPENDENCE for an idealised optimiser (result does not depend on the start value):
     two histories that end with the same last data per function end with the same parameters. *)
  Hypothesis F_start : forall j d p p' e, F j d p e = F j d p' e.

  Theorem final_params_unique : forall (e1 e2 : nat -> P) (ds : nat -> option D),
    (forall j, j < n -> exists d p, ds j = Some d /\ e1 j = F j d p e1) ->
    (forall j, j < n -> exists d p, ds j = Some d /\ e2 j = F j d p e2) ->
    forall j, j < n -> e1 j = e2 j.
  Proof.
    intros e1 e2 ds H1 H2 j. induction j as [j IHj] using lt_wf_ind. intros Hj.
    destruct (H1 j Hj) as [d1 [p1 [D1 E1]]]. destruct (H2 j Hj) as [d2 [p2 [D2 E2]]].
    rewrite D1 in D2. inversion D2; subst d2. rewrite E1, E2.
    rewrite (F_start j d1 p1 p2 e1). apply F_ext. intros i Hi. pose proof (conds_lt _ _ Hi). apply IHj; lia.
  Qed.

End Protocol.

(* two histories (any declaration-compatible call orders, re-fits, even different start parameters)
   that end with the same last data per function end with the same parameters *)
Section Order.
  Variables P D : Type.
  Variable n : nat.
  Variable conds : nat -> list nat.
  Hypothesis conds_lt : forall j i, In i (conds j) -> i < j.
  Variable F : nat -> D -> P -> (nat -> P) -> P.
  Hypothesis F_ext : forall j d p e1 e2, (forall i, In i (conds j) -> e1 i = e2 i) -> F j d p e1 = F j d p e2.
  Hypothesis F_start : forall j d p p' e, F j d p e = F j d p' e.

  Theorem order_independent : forall p0 p0' ops1 ops2 s1 s2,
    (forall j d, In (j, d) ops1 -> j < n) -> (forall j d, In (j, d) ops2 -> j < n) ->
    run P D n conds F ops1 (init P D conds p0) = Ok s1 -> run P D n conds F ops2 (init P D conds p0') = Ok s2 ->
    (forall j, j < n -> last_data D ops1 j None <> None) ->
    (forall j, j < n -> last_data D ops1 j None = last_data D ops2 j None) ->
    forall j, j < n -> params s1 j = params s2 j.
  Proof.
    intros p0 p0' ops1 ops2 s1 s2 B1 B2 R1 R2 All Same.
    assert (All2 : forall j, j < n -> last_data D ops2 j None <> None) by (intros j Hj; rewrite <- Same; auto).
    apply (final_params_unique P D n conds conds_lt F F_ext F_start (params s1) (params s2) (fun j => last_data D ops1 j None)).
    - intros j Hj. destruct (history P D n conds conds_lt F F_ext p0 ops1 s1 B1 R1 All j Hj) as [d [p [E1 E2]]]. eauto.
    - intros j Hj. rewrite (Same j Hj).
      destruct (history P D n conds conds_lt F F_ext p0' ops2 s2 B2 R2 All2 j Hj) as [d [p [E1 E2]]]. eauto.
  Qed.
End Order.

(* ------------------------------------------------------------------ bounds, feasible set *)
Section BoundsProofs.
  Variable T : Type.
  Variables neg_inf pos_inf : T.
  Variable leb : T -> T -> bool.
  Variable zero : T.
  Notation convert_bounds := (convert_bounds T neg_inf pos_inf).

  Lemma convert_length bs : length (fst (convert_bounds bs)) = length bs /\ length (snd (convert_bounds bs)) = length bs.
  Proof. unfold DepProtocol.convert_bounds. cbn. now rewrite !map_length. Qed.

  (* position i of the lower (upper) vector is the lower (upper) bound of parameter i; None -> -inf (+inf) *)
  Lemma convert_nth bs i b : nth_error bs i = Some b ->
    nth_error (fst (convert_bounds bs)) i = Some (match fst b with Some l => l | None => neg_inf end) /\
    nth_error (snd (convert_bounds bs)) i = Some (match snd b with Some u => u | None => pos_inf end).
  Proof. intros H. unfold DepProtocol.convert_bounds. cbn [fst snd]. split.
    - exact (map_nth_error (fun b : option T * option T => match fst b with Some l => l | None => neg_inf end) i bs H).
    - exact (map_nth_error (fun b : option T * option T => match snd b with Some u => u | None => pos_inf end) i bs H).
  Qed.

  Lemma box_declared bs p : in_box T leb (convert_bounds bs) p -> in_declared T leb bs p.
  Proof.
    unfold in_box, in_declared, DepProtocol.convert_bounds. cbn [fst snd]. revert p.
    induction bs as [|[lo hi] bs IH]; intros p H; cbn in H; inversion H; subst; constructor.
    - cbn in *. destruct H2 as [A B]. split; intros v E; subst; assumption.
    - apply IH. assumption.
  Qed.

  Lemma declared_box bs p : (forall x, leb neg_inf x = true) -> (forall x, leb x pos_inf = true) ->
    in_declared T leb bs p -> in_box T leb (convert_bounds bs) p.
  Proof.
    intros Hn Hp. unfold in_box, in_declared, DepProtocol.convert_bounds. cbn [fst snd]. revert p.
    induction bs as [|[lo hi] bs IH]; intros p H; inversion H; subst; cbn; constructor.
    - cbn in *. destruct H2 as [A B]. split; [destruct lo; auto|destruct hi; auto].
    - apply IH. assumption.
  Qed.

  (* oracle contract: what scipy returns (curve_fit's popt / a successful minimize result) lies in the
     feasible set of the problem it was handed *)
  Variable engine_result : call T -> list T -> list T.
  Hypothesis engine_feasible : forall c p0, feasible T leb zero c (engine_result c p0).

  Theorem fit_within_declared : forall hw bounds cons c p0,
    dispatch T neg_inf pos_inf hw bounds cons = Call c ->
    (forall bs, bounds = Some bs -> in_declared T leb bs (engine_result c p0)) /\
    (forall cs, cons = Some cs -> satisfies T leb zero cs (engine_result c p0)).
  Proof.
    intros hw bounds cons c p0 H. pose proof (engine_feasible c p0) as Fz. unfold dispatch in H.
    destruct cons as [cs|].
    - destruct hw; [discriminate|]. inversion H; subst c. clear H. unfold feasible in Fz. cbn in Fz.
      destruct Fz as [A B]. split.
      + intros bs E. subst bounds. exact A.
      + intros cs' E. inversion E; subst. exact B.
    - inversion H; subst c. clear H. unfold feasible in Fz. cbn in Fz. split.
      + intros bs E. subst bounds. apply box_declared. exact Fz.
      + intros cs E. discriminate.
  Qed.
End BoundsProofs.

(* ------------------------------------------------------------------ linear shapes: normal equations *)
From Coq Require Import Reals Lra.
Section LinearLSQ.
  Local Open Scope R_scope.
  Variable m : nat.                        (* number of parameters; f(x; p) = sum_k p_k * phi_k(x) *)
  Record obs := mkobs { feat : nat -> R; target : R; weight : R }.

  Definition dotl (ks : list nat) (p a : nat -> R) : R := fold_right (fun k acc => p k * a k + acc) 0 ks.
  Definition dot := dotl (seq 0 m).
  Definition resid (p : nat -> R) (o : obs) : R := dot p (feat o) - target o.
  Definition sumo (f : obs -> R) (rows : list obs) : R := fold_right (fun o acc => f o + acc) 0 rows.
  (* (weighted) squared residual *)
  Definition SSR (rows : list obs) (p : nat -> R) : R := sumo (fun o => weight o * (resid p o * resid p o)) rows.
  (* gradient = 0 *)
  Definition normal_eq (rows : list obs) (p : nat -> R) : Prop :=
    forall k, (k < m)%nat -> sumo (fun o => weight o * resid p o * feat o k) rows = 0.
  Definition psub (p q : nat -> R) : nat -> R := fun k => p k - q k.

  Lemma dotl_sub ks p q a : dotl ks (psub p q) a = dotl ks p a - dotl ks q a.
  Proof. unfold dotl. induction ks as [|k ks IH]; cbn [fold_right]; [lra|]. rewrite IH. unfold psub. lra. Qed.

  Lemma sumo_lin c f g rows : sumo (fun o => c * f o + g o) rows = c * sumo f rows + sumo g rows.
  Proof. unfold sumo. induction rows as [|o rows IH]; cbn [fold_right]; [lra|]. rewrite IH. lra. Qed.

  Lemma sumo_ext f g rows : (forall o, f o = g o) -> sumo f rows = sumo g rows.
  Proof. intros E. unfold sumo. induction rows as [|o rows IH]; cbn [fold_right]; [reflexivity|]. rewrite IH, E. reflexivity. Qed.

  Lemma cross_zero rows p q ks : (forall k, In k ks -> sumo (fun o => weight o * resid p o * feat o k) rows = 0) ->
    sumo (fun o => weight o * resid p o * dotl ks q (feat o)) rows = 0.
  Proof.
    induction ks as [|k ks IH]; intros H.
    - clear H. unfold sumo, dotl. cbn [fold_right]. induction rows as [|o rows IHr]; cbn [fold_right]; [reflexivity|]. rewrite IHr. lra.
    - rewrite (sumo_ext _ (fun o => q k * (weight o * resid p o * feat o k) + weight o * resid p o * dotl ks q (feat o))).
      + rewrite sumo_lin. rewrite (H k (or_introl eq_refl)). rewrite IH; [lra|]. intros k' Hk'. apply H. right. exact Hk'.
      + intros o. unfold dotl. cbn [fold_right]. lra.
  Qed.

  Theorem SSR_decomp rows p p' : normal_eq rows p ->
    SSR rows p' = SSR rows p + sumo (fun o => weight o * (dot (psub p' p) (feat o) * dot (psub p' p) (feat o))) rows.
  Proof.
    intros NE.
    assert (C : sumo (fun o => weight o * resid p o * dot (psub p' p) (feat o)) rows = 0).
    { apply cross_zero. intros k Hk. apply NE. apply in_seq in Hk. lia. }
    unfold SSR.
    rewrite (sumo_ext (fun o => weight o * (resid p' o * resid p' o))
                      (fun o => 2 * (weight o * resid p o * dot (psub p' p) (feat o)) +
                                (weight o * (resid p o * resid p o) + weight o * (dot (psub p' p) (feat o) * dot (psub p' p) (feat o))))).
    - rewrite sumo_lin. rewrite C.
      rewrite (sumo_ext (fun o => weight o * (resid p o * resid p o) + weight o * (dot (psub p' p) (feat o) * dot (psub p' p) (feat o)))
                        (fun o => 1 * (weight o * (resid p o * resid p o)) + weight o * (dot (psub p' p) (feat o) * dot (psub p' p) (feat o)))).
      + rewrite sumo_lin. lra.
      + intros o. lra.
    - intros o. unfold resid, dot. rewrite dotl_sub. ring.
  Qed.

  Lemma sumo_nonneg f rows : (forall o, In o rows -> 0 <= f o) -> 0 <= sumo f rows.
  Proof. induction rows as [|o rows IH]; intros H; [unfold sumo; cbn; lra|].
    assert (0 <= f o) by (apply H; left; reflexivity). assert (0 <= sumo f rows) by (apply IH; intros; apply H; right; auto).
    change (sumo f (o :: rows)) with (f o + sumo f rows). lra. Qed.

  Lemma sumo_zero f rows : (forall o, In o rows -> 0 <= f o) -> sumo f rows <= 0 -> forall o, In o rows -> f o = 0.
  Proof. induction rows as [|o rows IH]; intros H Hz o' Ho; [contradiction|]. change (sumo f (o :: rows)) with (f o + sumo f rows) in Hz.
    assert (A : 0 <= f o) by (apply H; left; reflexivity).
    assert (B : 0 <= sumo f rows) by (apply sumo_nonneg; intros; apply H; right; auto).
    destruct Ho as [->|Ho]; [lra|]. apply IH; auto; [intros; apply H; right; auto|lra]. Qed.

  (* a solution of the normal equations has the smallest (weighted) squared residual of all parameter vectors *)
  Theorem normal_eq_optimal rows p : (forall o, In o rows -> 0 <= weight o) -> normal_eq rows p ->
    forall p', SSR rows p <= SSR rows p'.
  Proof.
    intros W NE p'. rewrite (SSR_decomp rows p p' NE).
    assert (0 <= sumo (fun o => weight o * (dot (psub p' p) (feat o) * dot (psub p' p) (feat o))) rows); [|lra].
    apply sumo_nonneg. intros o Ho. apply Rmult_le_pos; [apply W; exact Ho|]. apply Rle_0_sqr.
  Qed.

  (* ... and it is the only one, when the design matrix has independent columns *)
  Theorem normal_eq_unique rows p : (forall o, In o rows -> 0 < weight o) -> normal_eq rows p ->
    (forall q, (forall o, In o rows -> dot q (feat o) = 0) -> forall k, (k < m)%nat -> q k = 0) ->
    forall p', SSR rows p' <= SSR rows p -> forall k, (k < m)%nat -> p' k = p k.
  Proof.
    intros W NE Rank p' Le k Hk. rewrite (SSR_decomp rows p p' NE) in Le.
    assert (Z : forall o, In o rows -> weight o * (dot (psub p' p) (feat o) * dot (psub p' p) (feat o)) = 0).
    { apply sumo_zero; [|lra]. intros o Ho. apply Rmult_le_pos; [apply Rlt_le, W; exact Ho|apply Rle_0_sqr]. }
    assert (E : psub p' p k = 0).
    { apply Rank; [|exact Hk]. intros o Ho. specialize (Z o Ho). pose proof (W o Ho).
      apply Rmult_integral in Z. destruct Z as [Z|Z]; [lra|]. apply Rmult_integral in Z. destruct Z; assumption. }
    unfold psub in E. lra.
  Qed.
End LinearLSQ.

(* ------------------------------------------------------------------ the executable (tagging) instance meets the hypotheses *)
Lemma Ftag_ext conds : forall j d p e1 e2, (forall i, In i (conds j) -> e1 i = e2 i) -> Ftag conds j d p e1 = Ftag conds j d p e2.
Proof. intros j d p e1 e2 H. unfold Ftag. f_equal. apply map_ext_in. exact H. Qed.

Definition table_ok (ctbl : list (list nat)) : bool :=
  forallb (fun j => forallb (fun i => i <? j) (lookup ctbl j)) (seq 0 (length ctbl)).

Lemma table_ok_lt ctbl : table_ok ctbl = true -> forall j i, In i (lookup ctbl j) -> i < j.
Proof.
  intros H j i Hi. unfold table_ok in H. rewrite forallb_forall in H.
  destruct (lt_dec j (length ctbl)) as [Hj|Hj].
  - specialize (H j). rewrite forallb_forall in H. apply Nat.ltb_lt. apply H; [apply in_seq; lia|exact Hi].
  - unfold lookup in Hi. rewrite nth_overflow in Hi by lia. contradiction.
Qed.

(* history theorem for the very function the correspondence check evaluates *)
Theorem history_tag : forall n ctbl ops s, table_ok ctbl = true ->
  (forall j d, In (j, d) ops -> j < n) -> run_tag n ctbl ops = Ok s ->
  (forall j, j < n -> last_data nat ops j None <> None) ->
  forall j, j < n -> exists d p, last_data nat ops j None = Some d /\
                               params s j = Fitted j d p (map (params s) (lookup ctbl j)).
Proof.
  intros n ctbl ops s T B R All j Hj.
  exact (history tag nat n (lookup ctbl) (table_ok_lt ctbl T) (Ftag (lookup ctbl)) (Ftag_ext (lookup ctbl)) Start ops s B R All j Hj).
Qed.
