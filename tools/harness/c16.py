"""C16 -- transformed models are exact push-forwards; Monte-Carlo conditionals match them (partly partial)."""
import math
import warnings

import numpy as np
from scipy import integrate

import vlib
from vlib import fl

PAIRS = [("hs_tz_to_s_d", "s_d_to_hs_tz"), ("hs_tz_to_hs_s", "hs_s_to_hs_tz"), ("hs_tz_to_s_tz", "s_tz_to_hs_tz")]
GETTERS = ["get_Windmeier_EW_Hs_S", "get_Nonzero_EW_Hs_S"]

PRELUDE = """From V.base Require Import FloatBits Num.
From V.gen Require Import VariableTransform Predefined.
Local Open Scope float_scope.
Definition F := FOps [] [].
Definition p2l (p : float * float) : list float := [fst p; snd p].
"""


def triple(getter):
    import virocon.predefined as pd
    res = getattr(pd, getter)()
    # (dist_descriptions, fit_descriptions, semantics, transformations)
    tr = res[-1]
    return tr["transform"], tr["inverse"], tr["jacobian"], res


def make_tm(getter):
    """a TransformedModel over an (unfitted but parameterised) base model with admissible dependence parameters"""
    from virocon import GlobalHierarchicalModel, TransformedModel
    fitted = getter.startswith("fitted:")
    t, inv, jac, res = triple(getter.split(":")[-1])
    base = GlobalHierarchicalModel(res[0])
    if fitted:
        # the documented use: the Hs-steepness model fitted to the shipped one-year dataset C (narrow conditionals)
        import os
        import pandas as pd
        from virocon import read_ec_benchmark_dataset
        root = os.environ.get("VIROCON_REPO", "/repo")
        data = read_ec_benchmark_dataset(os.path.join(root, "datasets", "ec-benchmark_dataset_C_1year.txt"))
        hs, tz = data.iloc[:, 0], data.iloc[:, 1]
        import virocon.variable_transform as vt
        _, st = vt.hs_tz_to_hs_s(hs, tz)
        st.name = "steepness"
        with warnings.catch_warnings():
            warnings.simplefilter("ignore")
            base.fit(pd.concat([hs, st], axis=1), res[1])
    return TransformedModel(base, t, inv, jac, precision_factor=0.2, random_state=42), base


def oracle_closed(pt):
    import virocon.variable_transform as vt
    a, b = pt["a"], pt["b"]
    for f, g in PAIRS:
        for first, second in ((f, g), (g, f)):
            u, v = getattr(vt, first)(a, b)
            a2, b2 = getattr(vt, second)(u, v)
            # (s,d)->(hs,tz) subtracts nearly equal numbers when s*d << factor: binary64 cancellation, not a defect
            sd = (a, b) if first == "s_d_to_hs_tz" else ((float(u), float(v)) if second == "s_d_to_hs_tz" else None)
            tol = 1e-9 if sd is None else max(1e-9, 1e-14 / (sd[0] ** 2 * sd[1] ** 2))
            if tol > 1e-3:
                continue
            if not (math.isclose(a2, a, rel_tol=tol) and math.isclose(b2, b, rel_tol=tol)):
                return ({"clause": "inverse", "pair": first + "/" + second}, "%s(%s(%r, %r)) = (%r, %r)" % (second, first, a, b, float(a2), float(b2)))
    for getter in GETTERS:
        t, inv, jac, _ = triple(getter)
        x = np.array([[a, b]])
        back = inv(t(x))
        if not np.allclose(back, x, rtol=1e-9):
            return ({"clause": "inverse", "pair": getter}, "%s: inverse(transform(%r)) = %r" % (getter, x.tolist(), back.tolist()))
        # numerical |det D transform|
        h = 1e-6
        J = np.empty((2, 2))
        for j in range(2):
            e = np.zeros(2)
            e[j] = h * x[0, j]
            J[:, j] = (t(x + e)[0] - t(x - e)[0]) / (2 * e[j])
        det = abs(np.linalg.det(J))
        jv = float(jac(x)[0])
        if not math.isclose(det, jv, rel_tol=1e-5):
            return ({"clause": "jacobian", "pair": getter}, "%s: jacobian(%r) = %r but |det D transform| = %r" % (getter, x.tolist(), jv, det))
    return None


def ref_cdf(tm, cdim, given):
    """conditional cdf of coordinate cdim given the other one, by trapezoidal integration of the joint density on a two-level grid:
    coarse to locate the mass, fine over the interval that carries it (narrow conditionals)"""
    coarse = np.linspace(1e-6, 60, 60001)
    pt = (lambda g: np.column_stack([np.full_like(g, given), g])) if cdim == 1 else (lambda g: np.column_stack([g, np.full_like(g, given)]))
    dc = np.nan_to_num(tm.pdf(pt(coarse)))
    if dc.max() <= 0:
        return None
    live = np.nonzero(dc > dc.max() * 1e-14)[0]
    lo, hi = coarse[max(live[0] - 1, 0)], coarse[min(live[-1] + 1, len(coarse) - 1)]
    grid = np.linspace(lo, hi, 200001)
    dens = np.nan_to_num(tm.pdf(pt(grid)))
    cdf = np.concatenate([[0], np.cumsum((dens[1:] + dens[:-1]) / 2 * np.diff(grid))])
    if cdf[-1] <= 0:
        return None
    return grid, cdf / cdf[-1]


def joint_cdf_reference(tm, base, q):
    """P(Hs <= h, Tz <= tz) of the transformed model from the base model alone: the integral over u <= h of
    f_Hs(u) * P(second base variable on the side of transform(u, tz) that corresponds to Tz <= tz | u)"""
    h, tz = float(q[0]), float(q[1])
    d0, d1 = base.distributions[0], base.distributions[1]
    t = tm.transform
    decreasing = t(np.array([[1.0, 5.0]]))[0, 1] > t(np.array([[1.0, 5.5]]))[0, 1]

    def integrand(u):
        sv = float(t(np.array([[u, tz]]))[0, 1])
        f1 = float(np.ravel(d1.cdf(np.array([sv]), given=np.array([u])))[0])
        return float(np.ravel(d0.pdf(np.array([u])))[0]) * ((1.0 - f1) if decreasing else f1)
    with warnings.catch_warnings():
        warnings.simplefilter("ignore")
        val, err = integrate.quad(integrand, 1e-9, h, limit=200)
    return val if np.isfinite(val) and err < 1e-5 else None


def oracle_model(getter, rng, tier_quick, notes):
    tm, base = make_tm(getter)
    t, inv, jac = tm.transform, tm.inverse, tm.jacobian
    # pdf = base.pdf(transform(x)) * jacobian(x)
    x = np.column_stack([rng.uniform(0.3, 6, 20), rng.uniform(3, 14, 20)])
    want = base.pdf(t(x)) * jac(x)
    got = tm.pdf(x)
    if not np.array_equal(got, want):
        return ({"clause": "pdf", "getter": getter}, "TransformedModel.pdf differs from base.pdf(transform(x)) * jacobian(x)")
    if np.any(got < 0):
        return ({"clause": "pdf-negative", "getter": getter}, "negative density")
    # whole-number evaluation points in an integer-typed array are the same points: transform, round trip,
    # Jacobian and density as for the float-typed array
    xi = np.column_stack([rng.choice(np.arange(1, 7), 4, replace=False), rng.choice(np.arange(3, 15), 4, replace=False)]).astype(np.int64)
    xf = xi.astype(float)
    for kind, arg in (("int64 ndarray", xi), ("int32 ndarray", xi.astype(np.int32))):
        try:
            ti, pi_, ji = np.asarray(t(arg), dtype=float), np.asarray(tm.pdf(arg), dtype=float), np.asarray(jac(arg), dtype=float)
            bi = np.asarray(inv(t(arg)), dtype=float)
        except Exception as e:  # noqa
            return ({"clause": "integer-points", "getter": getter, "exc": type(e).__name__},
                    "evaluation at %s %r raised %s: %s" % (kind, xi.tolist(), type(e).__name__, str(e)[:120]))
        for what, a_, b_ in (("transform", ti, np.asarray(t(xf), dtype=float)), ("pdf", pi_, np.asarray(tm.pdf(xf), dtype=float)),
                             ("jacobian", ji, np.asarray(jac(xf), dtype=float)), ("inverse(transform(x))", bi, xf)):
            if a_.shape != b_.shape or not np.allclose(a_, b_, rtol=1e-9, atol=0):
                return ({"clause": "integer-points", "getter": getter, "what": what},
                        "%s at the %s %r is %r, at the same points as floats %r" % (what, kind, xi.tolist(), a_.tolist(), b_.tolist()))
    if not np.array_equal(xi, np.column_stack([xi[:, 0], xi[:, 1]])) or xi.dtype != np.int64:
        return ({"clause": "integer-points", "getter": getter, "what": "input modified"}, "the integer input array was modified")
    # samples are inverse-transformed base samples
    rec = {}
    orig = base.draw_sample

    def spy(n, *a, **k):
        rec["s"] = orig(n, *a, **k)
        return rec["s"]
    base.draw_sample = spy
    s = tm.draw_sample(500)
    base.draw_sample = orig
    if s.shape != (500, 2) or not np.array_equal(s, inv(rec["s"])):
        return ({"clause": "sample", "getter": getter}, "draw_sample is not inverse(base.draw_sample)")
    # ... for every way of seeding the draw (int seeds incl. 0, Generator), whatever the model's own random_state is
    from virocon import TransformedModel as _TM
    for mseed in (None, 42, 0):
        tm_s = _TM(base, t, inv, jac, precision_factor=tm.precision_factor, random_state=mseed)
        for sd in (0, 1, 42, 2 ** 31 - 1, "gen0", "gen5"):
            mk = (lambda: np.random.default_rng(int(sd[3:]))) if isinstance(sd, str) else (lambda: sd)
            try:
                got_s = tm_s.draw_sample(50, random_state=mk())
            except TypeError as e:
                return ({"clause": "sample-seed", "getter": getter, "exc": "TypeError"}, "TransformedModel.draw_sample(50, random_state=%r) raised TypeError: %s" % (sd, e))
            want_s = inv(base.draw_sample(50, random_state=mk()))
            if not np.array_equal(got_s, want_s):
                return ({"clause": "sample-seed", "getter": getter},
                        "TransformedModel(random_state=%r).draw_sample(50, random_state=%r) is not inverse(base.draw_sample(50, random_state=%r)): first row %r vs %r"
                        % (mseed, sd, sd, got_s[0].tolist(), want_s[0].tolist()))
    # empirical cdf = fraction of sample rows with all coordinates <= x
    pts = x[:5]
    ec = tm.empirical_cdf(pts, sample=s)
    man = np.array([np.mean((s[:, 0] <= p[0]) & (s[:, 1] <= p[1])) for p in pts])
    if not np.array_equal(ec, man):
        return ({"clause": "empirical-cdf", "getter": getter}, "empirical_cdf differs from the manual count")
    # ... for samples of any length (also long ones whose length is no round number)
    jref = [joint_cdf_reference(tm, base, q) for q in pts]
    # the model's own cdf (numerical integration of its density, a minute per point) equals the empirical cdf of its own samples within
    # Monte-Carlo error: judged against the exact value that empirical cdf estimates, with the band of a sample of 1e6 rows
    cdf_pts = [np.array([2.0, 6.0])] if tier_quick else [np.array([2.0, 6.0]), np.array([1.0, 4.5]), np.array([4.0, 7.0])]
    if not tier_quick or getter == GETTERS[0]:
        for q in cdf_pts:
            r_ = joint_cdf_reference(tm, base, q)
            if r_ is None:
                continue
            with warnings.catch_warnings():
                warnings.simplefilter("ignore")
                got_c = float(np.ravel(tm.cdf(np.array([q])))[0])
            notes.setdefault("cdf_vs_exact", []).append([round(got_c, 6), round(r_, 6)])
            if abs(got_c - r_) > math.sqrt(math.log(2 / 1e-12) / (2 * 10 ** 6)):
                return ({"clause": "cdf", "getter": getter},
                        "TransformedModel.cdf([%.6g, %.6g]) = %.6f, the probability of [0, %.6g] x [0, %.6g] under the push-forward density is %.6f" % (q[0], q[1], got_c, q[0], q[1], r_))
    for nbig, sd in ((100000, 5), (150001, 0), (250000, "gen5")):
        rs = np.random.default_rng(5) if sd == "gen5" else sd
        sb = tm.draw_sample(nbig, random_state=rs)
        ecb = np.asarray(tm.empirical_cdf(pts, sample=sb), dtype=float)
        manb = np.array([np.mean((sb[:, 0] <= q[0]) & (sb[:, 1] <= q[1])) for q in pts])
        if not np.allclose(ecb, manb, rtol=0, atol=1e-12):
            return ({"clause": "empirical-cdf", "getter": getter, "n": nbig},
                    "empirical_cdf(x, sample of %d rows) = %r but the fraction of sample rows with all coordinates <= x is %r" % (nbig, ecb.tolist(), manb.tolist()))
        # ... and a SEEDED sample follows the model as any other: its empirical joint cdf against the exact push-forward cdf
        # (one-dimensional quadrature over the base model), Hoeffding bound at 1e-12 per point
        eps_s = math.sqrt(math.log(2 / 1e-12) / (2 * nbig)) + 1e-6
        for q, e_, r_ in zip(pts, manb, jref):
            if r_ is not None and abs(e_ - r_) > eps_s:
                return ({"clause": "seeded-sample-distribution", "getter": getter},
                        "draw_sample(%d, random_state=%r): a fraction %.5f of the rows is <= (%.4g, %.4g) in both coordinates, the model's cdf there is %.5f (band %.5f)"
                        % (nbig, sd, e_, q[0], q[1], r_, eps_s))
    # the density integrates, over a box, to the fraction of the model's own samples in that box (DKW 1e-12)
    if not tier_quick:
        box = (0.05, 12.0, 1.0, 25.0)   # hs_lo, hs_hi, tz_lo, tz_hi
        with warnings.catch_warnings():
            warnings.simplefilter("ignore")
            tot = integrate.dblquad(lambda tz, hs: float(tm.pdf(np.array([[hs, tz]]))[0]), box[0], box[1], box[2], box[3], epsabs=1e-5)[0]
        big = tm.draw_sample(200000)
        frac = float(np.mean((big[:, 0] >= box[0]) & (big[:, 0] <= box[1]) & (big[:, 1] >= box[2]) & (big[:, 1] <= box[3])))
        eps_box = math.sqrt(math.log(2 / 1e-12) / (2 * len(big)))
        notes.setdefault("box_integral_vs_sample", []).append([round(tot, 5), round(frac, 5)])
        if abs(tot - frac) > eps_box + 2e-3:
            return ({"clause": "integral", "getter": getter}, "pdf integrates to %r over the box %r but a fraction %r of the model's samples lies there" % (tot, box, frac))
    # a model with random_state set reproduces its Monte-Carlo quantiles exactly, call after call (as IFORMContour uses them)
    pq, gq = np.array([0.3, 0.95]), np.array([1.0, 2.5])
    with warnings.catch_warnings():
        warnings.simplefilter("ignore")
        q1 = tm.conditional_icdf(pq, 1, gq, precision_factor=tm.precision_factor, random_state=tm.random_state)
        q2 = tm.conditional_icdf(pq, 1, gq, precision_factor=tm.precision_factor, random_state=tm.random_state)
        tm_b, _ = make_tm(getter)
        q3 = tm_b.conditional_icdf(pq, 1, gq, precision_factor=tm_b.precision_factor, random_state=tm_b.random_state)
    if not (np.array_equal(q1, q2) and np.array_equal(q1, q3)):
        return ({"clause": "seed", "getter": getter, "what": "conditional_icdf"},
                "conditional quantiles of a model with random_state set are not reproduced: %r, then %r, fresh model %r" % (q1.tolist(), q2.tolist(), q3.tolist()))
    # Monte-Carlo conditional sample vs the conditional density (DKW, error probability 1e-12)
    n = 20000
    eps = math.sqrt(math.log(2 / 1e-12) / (2 * n))
    conds = [(1, 1.0), (1, 3.0), (0, 8.0), (0, 3.0), (0, 2.0)] if tier_quick else \
        [(1, 0.5), (1, 1.0), (1, 3.0), (1, 6.0), (1, 9.0), (0, 12.0), (0, 8.0), (0, 5.0), (0, 3.0), (0, 2.5), (0, 2.0)]
    n0 = n
    for cdim, hs in conds:
        # narrow conditionals (rejection envelope hardest to get right): ten times the sample, a third of the DKW bound
        n = n0 * 10 if (cdim == 0 and hs <= 2.5) else n0
        eps = math.sqrt(math.log(2 / 1e-12) / (2 * n))
        with warnings.catch_warnings():
            warnings.simplefilter("ignore")
            try:
                smp = tm.conditional_sample(n, cdim, hs, random_state=7)
            except Exception as e:  # noqa  (never seen on the unchanged tree, quick or thorough: a failure here is a finding)
                return ({"clause": "conditional-sample-exception", "getter": getter, "dim": cdim},
                        "conditional_sample(%d, %d, %r, random_state=7) raised %s: %s" % (n, cdim, hs, type(e).__name__, str(e)[:150]))
        if len(smp) != n:
            return ({"clause": "conditional-sample-size", "getter": getter, "dim": cdim},
                    "conditional_sample(%d, %d, %r) returned %d values" % (n, cdim, hs, len(smp)))
        ref = ref_cdf(tm, cdim, hs)
        if ref is None:
            continue
        grid, cdf = ref
        ss = np.sort(smp)
        F = np.interp(ss, grid, cdf, left=0.0, right=1.0)
        ecdf_hi = np.arange(1, n + 1) / n
        ecdf_lo = np.arange(0, n) / n
        dev = max(np.max(np.abs(ecdf_hi - F)), np.max(np.abs(ecdf_lo - F)))
        notes.setdefault("dkw_deviation", []).append([cdim, hs, round(float(dev), 5)])
        if dev > eps + 2e-3:
            return ({"clause": "conditional-sample", "getter": getter, "dim": cdim, "given": hs},
                    "conditional_sample(dim=%d | other=%r) deviates from the conditional density: sup|F_n - F| = %.4f > DKW bound %.4f" % (cdim, hs, dev, eps))
        s2 = tm.conditional_sample(200, cdim, hs, random_state=7)
        s3 = tm.conditional_sample(200, cdim, hs, random_state=7)
        if not np.array_equal(s2, s3):
            return ({"clause": "seed", "getter": getter}, "conditional_sample not reproducible for a fixed random_state")
    # IFORM contour of the transformed model: reproduced exactly when random_state is set, and each coordinate is the
    # Monte-Carlo quantile of the exact marginal / conditional law of the push-forward (DKW bound of the sample size used)
    if getter.startswith("fitted:") or not tier_quick:
        from virocon import IFORMContour
        import scipy.stats as sts
        npts = 4 if tier_quick else 12
        al = 0.02
        with warnings.catch_warnings():
            warnings.simplefilter("ignore")
            c1 = IFORMContour(tm, al, n_points=npts)
            c2 = IFORMContour(tm, al, n_points=npts)
        k1, k2 = np.asarray(c1.coordinates), np.asarray(c2.coordinates)
        # ... and whatever was evaluated on the (identically seeded) model object before: here the cached-sample paths
        tm_h, _ = make_tm(getter)
        with warnings.catch_warnings():
            warnings.simplefilter("ignore")
            tm_h.empirical_cdf(np.array([[2.0, 6.0]]))
            _ = tm_h.sample
            k3 = np.asarray(IFORMContour(tm_h, al, n_points=npts).coordinates)
        if not np.array_equal(k1, k3):
            return ({"clause": "seed", "getter": getter, "what": "IFORMContour-after-history"},
                    "IFORMContour of a model with random_state=%r is %r on a fresh object but %r on an identically seeded object on which empirical_cdf / .sample were used before"
                    % (tm.random_state, k1[0].tolist(), k3[0].tolist()))
        if not np.array_equal(k1, k2):
            bad = [j for j in range(2) if not np.array_equal(k1[:, j], k2[:, j])]
            return ({"clause": "seed", "getter": getter, "what": "IFORMContour"},
                    "IFORMContour(model with random_state=%r, %r, n_points=%d) is not reproduced: coordinate column(s) %r differ between two constructions, e.g. %r vs %r"
                    % (tm.random_state, al, npts, bad, k1[0].tolist(), k2[0].tolist()))
        pp = sts.norm.cdf(np.asarray(c1.sphere_points))
        d0, d1 = base.distributions[0], base.distributions[1]
        for i in range(len(k1)):
            hs_i, tz_i = float(k1[i, 0]), float(k1[i, 1])
            ps0 = min(pp[i, 0], 1 - pp[i, 0])
            n_0 = max(int((1 / min(np.min(pp[:, 0]), 1 - np.max(pp[:, 0]))) * 100 * tm.precision_factor), 100000)
            f0 = float(np.atleast_1d(d0.cdf(np.array([hs_i])))[0])
            e0 = math.sqrt(math.log(2 / 1e-12) / (2 * n_0))
            if abs(f0 - pp[i, 0]) > e0 + 1e-9:
                return ({"clause": "iform-marginal", "getter": getter},
                        "IFORM point %d: first coordinate %r has marginal probability %r, wanted %r (DKW bound %.4f for %d draws)" % (i, hs_i, f0, float(pp[i, 0]), e0, n_0))
            ps1 = min(pp[i, 1], 1 - pp[i, 1])
            if not getter.startswith("fitted:"):
                # the unfitted default parameters give, at very small hs, a conditional density that is unbounded at tz -> 0
                # (shape parameter beta = hs): rejection sampling cannot represent it; such points are outside the property's models
                gg = np.array([1e-6, 1e-3, 1e-2, 0.1, 0.3, 1, 2, 4, 8, 16, 32])
                dd = np.nan_to_num(tm.pdf(np.column_stack([np.full_like(gg, hs_i), gg])))
                if dd[:2].max() >= 0.5 * dd.max():
                    notes["iform_unbounded_conditional_skipped"] = notes.get("iform_unbounded_conditional_skipped", 0) + 1
                    continue
            n_1 = int(min(max((1 / ps1) * 100 * 1.0, 100000), 10000000))   # conditional_icdf is called with its default precision_factor
            # the sampler's documented support cap is 100 (jointmodels.py: highest_possible_x_max); conditionals of the
            # unfitted default parameters with visible mass beyond it are outside the property's models
            s_cap = float(np.asarray(t(np.array([[hs_i, 100.0]])))[0, 1])
            beyond = float(np.atleast_1d(d1.cdf(np.array([s_cap]), given=np.array([hs_i])))[0])
            if beyond > 1e-4:
                notes["iform_mass_beyond_cap_skipped"] = notes.get("iform_mass_beyond_cap_skipped", 0) + 1
                continue
            s_i = float(np.asarray(t(np.array([[hs_i, tz_i]])))[0, 1])
            f1 = 1.0 - float(np.atleast_1d(d1.cdf(np.array([s_i]), given=np.array([hs_i])))[0])
            e1 = math.sqrt(math.log(2 / 1e-12) / (2 * n_1))
            notes.setdefault("iform_prob_dev", []).append([round(abs(f0 - float(pp[i, 0])), 5), round(abs(f1 - float(pp[i, 1])), 5)])
            if abs(f1 - pp[i, 1]) > e1 + beyond + 1e-6:
                return ({"clause": "iform-conditional", "getter": getter},
                        "IFORM point %d: tz=%r given hs=%r has conditional probability %r, wanted %r (DKW bound %.4f for %d draws)" % (i, tz_i, hs_i, f1, float(pp[i, 1]), e1, n_1))
    # conditional_icdf: element i is the p[i]-quantile of Tz given Hs = given[i] -- exact conditional law of the push-forward
    # F(t | h) = 1 - F_S|Hs(s(h, t) | h); consecutive givens that are close but different each get their own law
    if getter.startswith("fitted:") or not tier_quick:
        d1 = base.distributions[1]
        # ... from tiny to extreme conditioning values (Hs = 11.7 m is the top of the 50-year contour of the fitted models,
        # 14 m has exceedance probability 2e-7: the JOINT density is small there although the conditional one is not)
        gl = [0.0100, 0.0104, 0.0108, 0.0112, 0.0116, 0.0120, 0.0140, 0.0144, 0.05, 0.0507, 0.1, 0.1004, 1.0, 1.0008, 3.0, 3.0005, 8.0,
              10.0, 11.0, 11.7, 12.0, 13.0, 14.0]
        for pq in (0.5, 0.95):
            pp_ = np.full(len(gl), pq)
            with warnings.catch_warnings():
                warnings.simplefilter("ignore")
                xq = np.asarray(tm.conditional_icdf(pp_, 1, np.array(gl), random_state=3), dtype=float)
            n_q = int(min(max((1 / min(pq, 1 - pq)) * 100, 100000), 10000000))
            e_q = math.sqrt(math.log(2 / 1e-12) / (2 * n_q))
            for h, xv in zip(gl, xq):
                s_cap = float(np.asarray(t(np.array([[h, 100.0]])))[0, 1])
                beyond = float(np.atleast_1d(d1.cdf(np.array([s_cap]), given=np.array([h])))[0])
                if beyond > 1e-4 or not np.isfinite(xv):
                    notes["icdf_unjudged"] = notes.get("icdf_unjudged", 0) + 1
                    continue
                if xv > 0:
                    s_x = float(np.asarray(t(np.array([[h, xv]])))[0, 1])
                    Fx = 1.0 - float(np.atleast_1d(d1.cdf(np.array([s_x]), given=np.array([h])))[0])
                else:
                    Fx = 0.0   # (a quantile of 0: the sampler gave up and conditional_icdf put 0 there)
                notes.setdefault("icdf_prob_dev_max", 0.0)
                notes["icdf_prob_dev_max"] = max(notes["icdf_prob_dev_max"], round(abs(Fx - pq), 5))
                if abs(Fx - pq) > e_q + beyond + 1e-6:
                    return ({"clause": "conditional-icdf", "getter": getter},
                            "conditional_icdf(p=%r, dim=1, given=%r) [element of the vector call given=%r] = %r, whose conditional probability is %r (DKW bound %.4f for %d draws)"
                            % (pq, h, gl, float(xv), Fx, e_q, n_q))
    # conditional_cdf: element i is the conditional cdf at x[i] given given[i], for givens in ANY order, with repeats
    # (the implementation uses 100000 draws per element: DKW bound at error probability 1e-12)
    eps_c = math.sqrt(math.log(2 / 1e-12) / (2 * 100000))
    for cdim, givens, qs in [(1, [3.0, 1.0, 3.0, 2.0, 1.0, 0.5], [0.2, 0.9, 0.7, 0.5, 0.1, 0.6]),
                             (0, [8.0, 4.0, 8.0, 6.0], [0.3, 0.8, 0.9, 0.5])]:
        refs = {g: ref_cdf(tm, cdim, g) for g in set(givens)}
        if any(r is None for r in refs.values()):
            continue
        xs = np.array([float(np.interp(q, refs[g][1], refs[g][0])) for g, q in zip(givens, qs)])
        with warnings.catch_warnings():
            warnings.simplefilter("ignore")
            try:
                got = np.asarray(tm.conditional_cdf(xs, cdim, np.array(givens), random_state=11), dtype=float)
            except Exception as e:  # noqa
                return ({"clause": "conditional-cdf", "getter": getter, "dim": cdim, "exc": type(e).__name__},
                        "conditional_cdf(%r, %d, %r) raised %s: %s" % (xs.tolist(), cdim, givens, type(e).__name__, str(e)[:100]))
        want = np.array([float(np.interp(x, refs[g][0], refs[g][1], left=0.0, right=1.0)) for g, x in zip(givens, xs)])
        notes.setdefault("conditional_cdf_dev", []).append(round(float(np.max(np.abs(got - want))), 5))
        if got.shape != want.shape or np.max(np.abs(got - want)) > eps_c + 2e-3:
            i = int(np.argmax(np.abs(got - want))) if got.shape == want.shape else 0
            return ({"clause": "conditional-cdf", "getter": getter, "dim": cdim},
                    "conditional_cdf(x=%r, dim=%d, given=%r) = %r but the conditional density gives %r (element %d off by more than the DKW bound %.4f)"
                    % (xs.tolist(), cdim, givens, got.tolist(), want.tolist(), i, eps_c))
    return None


def replay(ctx, case):
    if "a" in case:
        o = oracle_closed(case)
    else:
        import random
        o = oracle_model(case["getter"], np.random.default_rng(case.get("seed", 0)), True, {})
    if o:
        print("  ", o[1])
    return o is not None


def run(ctx):
    import virocon.variable_transform as vt
    ctx.proof_gate()
    rng = ctx.rng
    n = ctx.n(600, 6000)
    pts = [{"a": math.exp(rng.uniform(math.log(1e-3), math.log(1e2))), "b": math.exp(rng.uniform(math.log(1e-3), math.log(1e2)))} for _ in range(n)]
    # ---- translator validation: generated binary64 code vs the Python functions
    names = ["hs_tz_to_s_d", "s_d_to_hs_tz", "hs_tz_to_hs_s", "hs_s_to_hs_tz", "hs_tz_to_s_tz", "s_tz_to_hs_tz"]
    lines, want = [], []
    for p in pts[: ctx.n(300, 3000)]:
        a, b = p["a"], p["b"]
        row, wrow = [], []
        for nm in names:
            row.append("p2l (vt_%s F %s %s)" % (nm, fl(a), fl(b)))
            u, v = getattr(vt, nm)(a, b)
            wrow.append([float(u), float(v)])
        for g in GETTERS:
            t, inv, jac, _ = triple(g)
            x = np.array([[a, b]])
            row.append("p2l (pd_%s_transform F (%s, %s))" % (g, fl(a), fl(b)))
            wrow.append([float(v) for v in t(x)[0]])
            row.append("p2l (pd_%s_inv_transform F (%s, %s))" % (g, fl(a), fl(b)))
            wrow.append([float(v) for v in inv(x)[0]])
            row.append("[pd_%s_jacobian F (%s, %s)]" % (g, fl(a), fl(b)))
            wrow.append([float(jac(x)[0])])
        lines.append("[" + "; ".join(row) + "]")
        want.append(wrow)
    items = []
    shard = 100
    for s in range(0, len(lines), shard):
        items.append(("tv_%d" % (s // shard), PRELUDE + "Eval vm_compute in [\n" + ";\n".join(lines[s:s + shard]) + "].\n"))
    outs = ctx.coq_eval_many(items)
    idx, nex, ncmp = 0, 0, 0
    suspects = []
    for o in outs:
        if o is None:
            idx += shard
            continue
        for row in vlib.parse_term(o[0]):
            w = want[idx]
            bad = False
            for got, exp in zip(row, w):
                for gv, ev in zip(got, exp):
                    ncmp += 1
                    if vlib.ulp_diff(float(gv), ev) == 0:
                        nex += 1
                    elif not vlib.close(float(gv), ev, 1e-12):
                        bad = True
            if bad:
                ctx.mismatch("generated variable transformation", "point %r: generated code gives %r, python %r" % (pts[idx], row, w))
                suspects.append(pts[idx])
            idx += 1
    ctx.cov["programs"] = 12
    ctx.notes["translator_validation"] = {"values_compared": ncmp, "bit_exact": nex}
    found = 0
    for p in suspects + pts:
        ctx.count((round(p["a"], 12), round(p["b"], 12)), True)
        o = oracle_closed(p)
        if o is not None and ctx.violation(o[0], o[1], p):
            found += 1
            if found >= 4:
                break
    notes = {}
    for g in GETTERS + ["fitted:get_Windmeier_EW_Hs_S", "fitted:get_Nonzero_EW_Hs_S"]:
        try:
            o = oracle_model(g, ctx.np_rng(1), ctx.quick(), notes)
        except Exception as e:  # noqa
            import traceback
            o = ({"clause": "exception", "getter": g, "exc": type(e).__name__}, "%s: %s" % (type(e).__name__, traceback.format_exc()[-400:]))
        ctx.count(("model", g), True)
        if o is not None:
            ctx.violation(o[0], o[1], {"getter": g, "seed": ctx.seed})
    ctx.notes.update(notes)
    ctx.sample(pts[0])
    ctx.sample({"getter": GETTERS[0], "checks": ["pdf = base.pdf(T x) J x", "sample = inverse(base sample)", "empirical cdf", "conditional_sample vs conditional density (DKW 1e-12)"]})
    ctx.cov["rule"] = "points (a, b) log-uniform over (1e-3, 1e2)^2 through all six transformations, both predefined triples and their Jacobians; both transformed predefined models; non-trivial: all"
    ctx.cov["trusted_base"] = ["Coq kernel + vm_compute", "Coquelicot (is_derive)", "tools/py2v.py (validated here)", "hand model model/Transformed.v (checked by the oracle equalities)"]
    ctx.assumptions += ["Monte-Carlo clauses are validated with DKW bounds, not proved"]
