"""C01 -- IFORM/ISORM contours are the inverse-Rosenblatt image of the beta-sphere (DESIGN.md section 6, C01).

proof gate: props/C01.v (rosen_chain for every dimension, |u| = beta, point count, 2-D angles, beta formulas,
            maximal first coordinate, NSphere normalisation invariant)
correspondence: binary64 instance of model/Iform.v, evaluated by vm_compute with the oracle tables recorded
            from this run (norm.cdf/ppf, chi2.ppf, cos/sin, template icdf/cdf, dependence values, NSphere output;
            for the NSphere itself: seeded normal draws, forces, potential energies), against the real
            IFORMContour / ISORMContour / NSphere
search: the property oracle -- coordinates mapped back through the model's own cdfs into U-space, distance beta
            with a tail-aware tolerance, count, directions, largest first coordinate
"""
import contextlib
import copy
import math
import time

import numpy as np
import scipy.stats as real_sts

import vlib
from vlib import fl, fl_list, fl_mat

# ------------------------------------------------------------------ families / dependence shapes
# (virocon class name, [(parameter, kind, lo, hi)]) in the family's param_names order
FAMS = {
    "weibull": ("WeibullDistribution", [("alpha", "pos", 0.5, 4.0), ("beta", "pos", 0.7, 3.5), ("gamma", "real", 0.0, 2.0)]),
    "lognormal": ("LogNormalDistribution", [("mu", "real", -0.5, 2.0), ("sigma", "pos", 0.1, 0.8)]),
    "normal": ("NormalDistribution", [("mu", "real", -3.0, 3.0), ("sigma", "pos", 0.3, 3.0)]),
    "lognormfit": ("LogNormalNormFitDistribution", [("mu_norm", "pos", 0.5, 5.0), ("sigma_norm", "pos", 0.2, 2.0)]),
    "expweib": ("ExponentiatedWeibullDistribution", [("alpha", "pos", 0.3, 3.0), ("beta", "pos", 0.5, 3.0), ("delta", "pos", 0.5, 5.0)]),
    "gengamma": ("GeneralizedGammaDistribution", [("m", "pos", 0.5, 4.0), ("c", "pos", 0.5, 3.0), ("lambda_", "pos", 0.3, 3.0)]),
    "vonmises": ("VonMisesDistribution", [("kappa", "pos", 0.3, 5.0), ("mu", "real", -1.0, 1.0)]),
    "scipygamma": ("ScipyDistribution:gamma", [("a", "pos", 0.5, 5.0), ("loc", "real", 0.0, 1.0), ("scale", "pos", 0.3, 3.0)]),
    "alg": ("AlgDistribution", [("a", "pos", 0.3, 5.0)]),
}
FAM_NAMES = sorted(FAMS)
# families whose ppf is a numerical root search (absolute x accuracy instead of a relative one) and whose cdf is
# computed as 0.5 + series, i.e. with ABSOLUTE accuracy ~1e-16 also in the lower tail (p ~ 1e-10 then carries a
# relative error ~1e-6: numerical saturation of the engine, not of virocon)
ABS_X_ERR = {"vonmises": 5e-14}
ABS_P_ERR = {"vonmises": 2e-15}


class AlgDistribution:
    """duck-typed template whose cdf / icdf need only + * / :  F(x; a) = x/(x+a),  Q(p; a) = a*p/(1-p).
    The Coq model evaluates it itself (no table), so the table mechanism cannot hide a disagreement."""

    def __init__(self, a=1.0, f_a=None):
        self.a = a if f_a is None else f_a
        self.f_a = f_a

    @property
    def parameters(self):
        return {"a": self.a}

    def cdf(self, x, a=None):
        a = self.a if a is None else a
        return x / (x + a)

    def icdf(self, prob, a=None):
        a = self.a if a is None else a
        return a * prob / (1 - prob)

    def pdf(self, x, a=None):
        a = self.a if a is None else a
        return a / (x + a) ** 2


def _shape_fn(sh, inner=None):
    """dependence function of a shape spec {"shape", "coef"[, "inner"]}; parameters carry their values as defaults"""
    k, c = sh["shape"], sh["coef"]
    if k == "const":
        def const(x, a=c[0]):
            return a
        return const
    if k == "sat":
        def sat(x, a=c[0], b=c[1]):
            return a + b * np.abs(x) / (1 + np.abs(x))
        return sat
    if k == "exp3":
        def exp3(x, a=c[0], b=c[1], c_=c[2]):
            return a + b * np.exp(-c_ * np.abs(x))
        return exp3
    if k == "logistic4":
        def logistic4(x, a=c[0], b=c[1], c_=c[2], d=c[3]):
            return a + b / (1 + np.exp(-c_ * (x - d)))
        return logistic4
    if k == "power3":
        def power3(x, a=c[0], b=c[1], c_=c[2]):
            return a + b * np.abs(x) ** c_
        return power3
    if k == "alpha3":  # chained: depends on another dependence function (predefined.py get_OMAE2020_V_Hs style)
        def alpha3(x, a=c[0], b=c[1], c_=c[2], d_of_x=None):
            return (a + b * np.abs(x) ** c_) / 2.0445 ** (1 / d_of_x(x))
        return alpha3
    if k == "linear2":
        def linear2(x, a=c[0], b=c[1]):
            return a + b * x
        return linear2
    if k == "lnsqrt":
        def lnsqrt(x, a=c[0], b=c[1]):
            return np.log(a + b * np.sqrt(np.abs(x) / 9.81))
        return lnsqrt
    if k == "tanh":
        def tanh3(x, a=c[0], b=c[1], c_=c[2]):
            return a + b * np.tanh(c_ * x)
        return tanh3
    raise ValueError(k)


# admissibility: a dependence shape that grows with |given| is only drawn when the conditioning variable cannot be
# astronomically large (the algebraic family has quantiles a/(1-p) ~ 1e11, then exp(mu) over/underflows)
HEAVY = {"alg", "lognormfit"}
BOUNDED = {"normal", "vonmises"}


def gen_shape(rng, kind, lo, hi, allow_chain=True, cond_fam=None):
    r4 = lambda v: float(round(v, 4))
    if kind == "pos":
        k = rng.choice(["const", "sat", "exp3", "logistic4"] + (["power3"] if cond_fam not in HEAVY else [])
                       + (["alpha3"] if allow_chain and cond_fam not in HEAVY else []))
        a = rng.uniform(lo, lo + 0.5 * (hi - lo))
        b = rng.uniform(0.0, hi - a)
        if k == "const":
            return {"shape": k, "coef": [r4(a)]}
        if k == "sat":
            return {"shape": k, "coef": [r4(a), r4(b)]}
        if k == "exp3":
            return {"shape": k, "coef": [r4(a), r4(b), r4(rng.uniform(0.05, 2.0))]}
        if k == "logistic4":
            return {"shape": k, "coef": [r4(a), r4(b), r4(rng.uniform(0.2, 3.0)), r4(rng.uniform(-1.0, 4.0))]}
        if k == "power3":
            return {"shape": k, "coef": [r4(a), r4(0.05 * b), r4(rng.uniform(0.3, 1.0))]}
        return {"shape": k, "coef": [r4(a * 1.5), r4(0.05 * b), r4(rng.uniform(0.3, 1.0))],
                "inner": gen_shape(rng, "pos", 0.7, 3.5, allow_chain=False)}
    k = rng.choice(["const", "lnsqrt", "tanh"] + (["linear2", "linear2"] if cond_fam in BOUNDED else []))
    a = rng.uniform(lo, hi)
    if k == "const":
        return {"shape": k, "coef": [r4(a)]}
    if k == "linear2":
        return {"shape": k, "coef": [r4(a), r4(rng.uniform(-0.3, 0.3))]}
    if k == "lnsqrt":
        return {"shape": k, "coef": [r4(rng.uniform(1.0, 3.0)), r4(rng.uniform(0.0, 3.0))]}
    return {"shape": k, "coef": [r4(a), r4(rng.uniform(-1.0, 1.0)), r4(rng.uniform(0.1, 2.0))]}


def gen_dim(rng, i, cond, prev=(), fam=None):
    fam = fam or rng.choice(FAM_NAMES)
    _, plist = FAMS[fam]
    par = {}
    for (nm, kind, lo, hi) in plist:
        par[nm] = float(round(rng.uniform(lo, hi), 4))
        if rng.random() < 0.15:   # Python ints as parameters (WeibullDistribution(alpha=2, beta=1, gamma=0), f_gamma=0, ...)
            iv = int(round(par[nm]))
            if lo <= iv <= hi and (kind == "real" or iv > 0):
                par[nm] = iv
    d = {"fam": fam, "cond": cond, "par": par}
    if cond is not None:
        names = [p[0] for p in plist]
        k = rng.randrange(1, len(names) + 1)
        for nm in rng.sample(names, k):
            (_, kind, lo, hi) = [p for p in plist if p[0] == nm][0]
            d["par"][nm] = gen_shape(rng, kind, lo, hi, cond_fam=prev[cond]["fam"])
    return d


def cond_structures(n_dim):
    """every admissible conditional_on: entry 0 None, entry i in {None, 0..i-1}"""
    out = [[None]]
    for i in range(1, n_dim):
        out = [s + [c] for s in out for c in [None] + list(range(i))]
    return out


def gen_spec(rng, structure=None, kind=None, fam0=None):
    if structure is None:
        n_dim = rng.choice([2, 2, 3, 3, 4])
        structure = rng.choice(cond_structures(n_dim))
    la = rng.uniform(math.log(1e-8), math.log(0.5))
    alpha = rng.choice([math.exp(la), math.exp(la), float("%.3g" % math.exp(la)), 0.5, 1e-8, 0.01])
    dims = []
    for i, c in enumerate(structure):
        dims.append(gen_dim(rng, i, c, dims, fam=fam0 if i == 0 else None))
    sp = {"kind": kind or rng.choice(["iform", "isorm"]), "alpha": float(alpha), "n_points": rng.randrange(3, 41), "dims": dims}
    if rng.random() < 0.2:
        sp["alpha_type"] = "np.float64"
    return sp


# ------------------------------------------------------------------ predefined models (fitted to the bundled data sets)
PREDEFINED = [("get_DNVGL_Hs_Tz", "A_1year", False), ("get_DNVGL_Hs_U", "D_1year", True),
              ("get_OMAE2020_Hs_Tz", "A_1year", False), ("get_OMAE2020_V_Hs", "D_1year", False),
              ("get_DNVGL_Hs_Tz", "B_1year", False), ("get_OMAE2020_Hs_Tz", "C_1year", False)]
CLASS_FAM = {"WeibullDistribution": "weibull", "LogNormalDistribution": "lognormal", "NormalDistribution": "normal",
             "LogNormalNormFitDistribution": "lognormfit", "ExponentiatedWeibullDistribution": "expweib",
             "GeneralizedGammaDistribution": "gengamma", "VonMisesDistribution": "vonmises", "AlgDistribution": "alg"}
DEFAULT_N_POINTS = 180   # IFORMContour / ISORMContour called without n_points


def n_points_of(spec):
    return DEFAULT_N_POINTS if spec.get("n_points") is None else spec["n_points"]


def build_predefined(spec, rec=None):
    """GlobalHierarchicalModel of a predefined description, fitted to a shipped data set; fills spec["dims"]"""
    import os
    import virocon
    import virocon.predefined as vp
    dd, fd, _sem = getattr(vp, spec["predefined"])()
    data = virocon.read_ec_benchmark_dataset(os.path.join(vlib.REPO, "datasets", "ec-benchmark_dataset_%s.txt" % spec["dataset"]))
    if spec.get("swap"):
        cols = data.columns.tolist()
        data = data[cols[-1:] + cols[:1]]
    model = virocon.GlobalHierarchicalModel(dd)
    with np.errstate(all="ignore"):
        model.fit(data, fd)
    dims = []
    for i, dist in enumerate(model.distributions):
        c = model.conditional_on[i]
        tmpl = dist if c is None else dist.distribution
        fam = CLASS_FAM[type(tmpl).__name__]
        names = [p[0] for p in FAMS[fam][1]]
        assert names == list(tmpl.parameters), (names, list(tmpl.parameters))
        if c is None:
            par = {nm: float(tmpl.parameters[nm]) for nm in names}
        else:
            par = {nm: (float(dist.fixed_parameters[nm]) if nm in dist.fixed_parameters else {"shape": "predefined"}) for nm in names}
        dims.append({"fam": fam, "cond": c, "par": par})
        if rec is not None:
            _wrap_template(tmpl, names, i, rec)
            if c is not None:
                for nm in list(dist.conditional_parameters):
                    dist.conditional_parameters[nm] = _DepRec(dist.conditional_parameters[nm], rec.dep.setdefault((i, nm), {}), rec)
    spec["dims"] = dims
    return model


# ------------------------------------------------------------------ recording
def _bits(x):
    return float(x).hex()


class Recorder:
    def __init__(self):
        self.on = True
        self.phi, self.phiinv, self.cos, self.sin = {}, {}, {}, {}
        self.chi2 = {}
        self.nsph = {}
        self.t_icdf, self.t_cdf, self.dep = {}, {}, {}
        self.bad = []

    def rec1(self, tab, x, y):
        if not self.on:
            return
        xs, ys = np.broadcast_arrays(np.asarray(x, dtype=float), np.asarray(y, dtype=float))
        for a, b in zip(xs.ravel(), ys.ravel()):
            tab.setdefault(_bits(a), (float(a), float(b)))

    def recT(self, tab, theta, x, y):
        if not self.on:
            return
        arrs = np.broadcast_arrays(np.asarray(x, dtype=float), np.asarray(y, dtype=float),
                                   *[np.asarray(t, dtype=float) for t in theta])
        flat = [a.ravel() for a in arrs]
        for j in range(flat[0].size):
            th = [float(f[j]) for f in flat[2:]]
            key = (tuple(_bits(t) for t in th), _bits(flat[0][j]))
            tab.setdefault(key, (th, float(flat[0][j]), float(flat[1][j])))


class _Fwd:
    def __init__(self, real):
        object.__setattr__(self, "_real", real)

    def __getattr__(self, name):
        return getattr(object.__getattribute__(self, "_real"), name)


class _DistProxy(_Fwd):
    def __init__(self, real, name, rec):
        super().__init__(real)
        object.__setattr__(self, "_name", name)
        object.__setattr__(self, "_rec", rec)

    def ppf(self, q, *a, **k):
        out = self._real.ppf(q, *a, **k)
        rec = self._rec
        if self._name == "norm" and not a and not k:
            rec.rec1(rec.phiinv, q, out)
        elif self._name == "chi2" and len(a) == 1 and not k and np.ndim(q) == 0:
            if rec.on:
                rec.chi2[(_bits(q), int(a[0]))] = (float(q), int(a[0]), float(out))
        else:
            rec.bad.append("unexpected call %s.ppf%r" % (self._name, (a, k)))
        return out

    def cdf(self, x, *a, **k):
        out = self._real.cdf(x, *a, **k)
        rec = self._rec
        if self._name == "norm" and not a and not k:
            rec.rec1(rec.phi, x, out)
        else:
            rec.bad.append("unexpected call %s.cdf%r" % (self._name, (a, k)))
        return out


class _StsProxy(_Fwd):
    def __init__(self, real, rec):
        super().__init__(real)
        object.__setattr__(self, "_rec", rec)

    def __getattr__(self, name):
        obj = getattr(self._real, name)
        if name in ("norm", "chi2"):
            return _DistProxy(obj, name, self._rec)
        return obj


class _NpProxy(_Fwd):
    def __init__(self, real, rec):
        super().__init__(real)
        object.__setattr__(self, "_rec", rec)

    def cos(self, x, *a, **k):
        out = self._real.cos(x, *a, **k)
        self._rec.rec1(self._rec.cos, x, out)
        return out

    def sin(self, x, *a, **k):
        out = self._real.sin(x, *a, **k)
        self._rec.rec1(self._rec.sin, x, out)
        return out


_NSPHERE_CACHE = {}


def _vc():
    import virocon
    import virocon.contours
    import virocon._nsphere
    return virocon


@contextlib.contextmanager
def recording(rec):
    """rebind the engines seen by virocon.contours (module attributes, from outside)"""
    vc = _vc()
    mod = vc.contours
    old = (mod.sts, mod.np, mod.NSphere)
    real_nsphere = old[2]

    def nsphere(*a, **k):
        s = _NSPHERE_CACHE.get((a, tuple(sorted(k.items()))))
        if s is None:
            s = real_nsphere(*a, **k)
            _NSPHERE_CACHE[(a, tuple(sorted(k.items())))] = s
        s = copy.copy(s)
        s.unit_sphere_points = np.array(s.unit_sphere_points, copy=True)
        if rec.on:
            rec.nsph[(int(s.dim), int(s.n_samples))] = [[float(v) for v in row] for row in s.unit_sphere_points]
        return s
    mod.sts, mod.np, mod.NSphere = _StsProxy(old[0], rec), _NpProxy(old[1], rec), nsphere
    try:
        yield
    finally:
        mod.sts, mod.np, mod.NSphere = old


def _wrap_template(dist, names, i, rec):
    """instance-level wrappers around the template's icdf / cdf: (parameter values, argument) |-> result"""
    for meth, store in (("icdf", rec.t_icdf), ("cdf", rec.t_cdf)):
        orig = getattr(dist, meth)
        tab = store.setdefault(i, {})

        def wrapped(x, *a, _orig=orig, _tab=tab, **k):
            out = _orig(x, *a, **k)
            vals = dict(zip(names, a))
            vals.update(k)
            if any(v is not None for v in vals.values()):
                theta = [vals.get(nm) if vals.get(nm) is not None else float("nan") for nm in names]
            else:
                theta = []
            rec.recT(_tab, theta, x, out)
            return out
        setattr(dist, meth, wrapped)


class _DepRec:
    """callable handed to ConditionalDistribution: given |-> parameter value, recorded"""

    def __init__(self, fn, tab, rec):
        self.fn, self.tab, self.rec = fn, tab, rec

    def __call__(self, given, *a, **k):
        out = self.fn(given, *a, **k)
        self.rec.rec1(self.tab, given, out)
        return out

    def __repr__(self):
        return "rec(%r)" % (self.fn,)


def build_model(spec, rec=None):
    vc = _vc()
    if "predefined" in spec:
        return build_predefined(spec, rec)
    import virocon.distributions as vd
    from virocon import GlobalHierarchicalModel, DependenceFunction
    descs = []
    for i, d in enumerate(spec["dims"]):
        cls_name, plist = FAMS[d["fam"]]
        names = [p[0] for p in plist]
        if cls_name == "AlgDistribution":
            cls = AlgDistribution
        elif cls_name.startswith("ScipyDistribution:"):
            cls = type("Scipy_" + cls_name.split(":")[1], (vd.ScipyDistribution,), {"scipy_dist_name": cls_name.split(":")[1]})
        else:
            cls = getattr(vd, cls_name)
        if d["cond"] is None:
            dist = cls(**{nm: d["par"][nm] for nm in names})
            if rec is not None:
                _wrap_template(dist, names, i, rec)
            descs.append({"distribution": dist})
            continue
        fixed = {"f_" + nm: v for nm, v in d["par"].items() if not isinstance(v, dict)}
        dist = cls(**fixed)
        if rec is not None:
            _wrap_template(dist, names, i, rec)
        pars = {}
        for nm, v in d["par"].items():
            if not isinstance(v, dict):
                continue
            if "inner" in v:
                inner = DependenceFunction(_shape_fn(v["inner"]))
                dep = DependenceFunction(_shape_fn(v), d_of_x=inner)
            else:
                dep = DependenceFunction(_shape_fn(v))
            pars[nm] = dep if rec is None else _DepRec(dep, rec.dep.setdefault((i, nm), {}), rec)
        descs.append({"distribution": dist, "conditional_on": d["cond"], "parameters": pars})
    return GlobalHierarchicalModel(descs)


def make_contour(spec, model):
    vc = _vc()
    cls = vc.contours.IFORMContour if spec["kind"] == "iform" else vc.contours.ISORMContour
    alpha = np.float64(spec["alpha"]) if spec.get("alpha_type") == "np.float64" else spec["alpha"]
    if spec.get("n_points") is None:
        return cls(model, alpha)            # default number of points
    return cls(model, alpha, n_points=spec["n_points"])


# ------------------------------------------------------------------ property oracle
def _cdf_col(model, spec, coords, i):
    d = model.distributions[i]
    c = spec["dims"][i]["cond"]
    if c is None:
        return lambda x: np.asarray(d.cdf(x), dtype=float)
    g = coords[:, c]
    return lambda x: np.asarray(d.cdf(x, given=g), dtype=float)


def back_map(model, spec, coords, rec=None):
    """coordinates -> (p', u', du): p' through the model's own cdfs (recorded), u' = Phi^-1(p'),
    du = what the engines' accuracy (x to ~1e-13 relative, p to its float spacing) can move u' by"""
    n, nd = coords.shape
    pp = np.empty((n, nd))
    uu = np.empty((n, nd))
    du = np.empty((n, nd))
    with np.errstate(all="ignore"):
        for i in range(nd):
            f = _cdf_col(model, spec, coords, i)
            x = coords[:, i]
            if rec is not None:
                rec.on = True
            p0 = f(x) * np.ones(n)
            if rec is not None:
                rec.on = False
            h = 1e-13 * np.abs(x) + 16 * np.spacing(np.abs(x)) + ABS_X_ERR.get(spec["dims"][i]["fam"], 0.0)
            u0 = real_sts.norm.ppf(p0)
            up = real_sts.norm.ppf(f(x + h) * np.ones(n))
            um = real_sts.norm.ppf(f(x - h) * np.ones(n))
            dp = (4 * np.spacing(p0) + ABS_P_ERR.get(spec["dims"][i]["fam"], 0.0)) / np.maximum(real_sts.norm.pdf(u0), 1e-300)
            pp[:, i], uu[:, i] = p0, u0
            du[:, i] = np.maximum(np.abs(up - u0), np.abs(um - u0)) + dp
    if rec is not None:
        rec.on = True
    return pp, uu, du


def expected_beta(spec):
    nd = len(spec["dims"])
    if spec["kind"] == "iform":
        return float(real_sts.norm.ppf(1 - spec["alpha"]))
    return float(np.sqrt(real_sts.chi2.ppf(1 - spec["alpha"], nd)))


def oracle(spec, model, contour, rec=None, stats=None):
    """None if the property holds on this contour, else (signature, message).  Fills stats (judged / unjudgeable).
    alpha in (0.5, 1) (inside the statement's (0,1), outside the quantifier's [1e-8, 0.5]): IFORM's beta is negative,
    the distance is |beta| and the images are beta * direction; the largest-first-coordinate clause is not claimed there."""
    stats = stats if stats is not None else {}
    nd, n = len(spec["dims"]), n_points_of(spec)
    cls = spec["kind"]
    coords = np.asarray(contour.coordinates, dtype=float)
    if coords.shape != (n, nd):
        return ({"contour": cls, "clause": "count"}, "coordinates have shape %r, expected (%d, %d)" % (coords.shape, n, nd))
    if not np.all(np.isfinite(coords)):
        return ({"contour": cls, "clause": "finite"}, "coordinates contain non-finite values")
    pp, uu, du = back_map(model, spec, coords, rec)
    stats["pp"] = pp
    b_want = expected_beta(spec)
    b = float(contour.beta)
    if not abs(b - b_want) <= 1e-12 * max(abs(b_want), 1.0):
        what = "Phi^-1(1-alpha)" if cls == "iform" else "sqrt(chi2_%d^-1(1-alpha))" % nd
        return ({"contour": cls, "clause": "beta"}, "beta = %r but %s = %r (alpha = %r)" % (b, what, b_want, spec["alpha"]))
    r_want = abs(b_want)
    scale = max(r_want, 1.0)
    dsum = du.sum(axis=1)
    judge = np.isfinite(uu).all(axis=1) & np.isfinite(dsum) & (dsum <= 1e-3 * scale)
    stats["judged"] = int(judge.sum())
    stats["unjudgeable"] = int((~judge).sum())
    dist = np.sqrt((uu ** 2).sum(axis=1))
    tol = 1e-9 * scale + 4 * dsum
    for k in range(n):
        if judge[k] and not abs(dist[k] - r_want) <= tol[k]:
            return ({"contour": cls, "clause": "distance", "n_dim": nd},
                    "point %d = %r maps back to u = %r at distance %r from the origin, beta = %r (tolerance %.3g)"
                    % (k, [float(v) for v in coords[k]], [float(v) for v in uu[k]], float(dist[k]), b_want, float(tol[k])))
    # the attribute sphere_points: n points of norm |beta|, and they ARE the U-space images of the coordinates
    sp = np.asarray(getattr(contour, "sphere_points", np.empty((0, 0))), dtype=float)
    if sp.shape != (n, nd):
        return ({"contour": cls, "clause": "sphere-points", "n_dim": nd}, "sphere_points have shape %r, expected (%d, %d)" % (sp.shape, n, nd))
    spn = np.sqrt((sp ** 2).sum(axis=1))
    if not np.all(np.abs(spn - r_want) <= 1e-12 * scale):
        k = int(np.argmax(np.abs(spn - r_want)))
        return ({"contour": cls, "clause": "sphere-points", "n_dim": nd},
                "sphere_points[%d] = %r has norm %r, beta = %r" % (k, [float(v) for v in sp[k]], float(spn[k]), b_want))
    for k in range(n):
        if judge[k] and not np.all(np.abs(uu[k] - sp[k]) <= 1e-9 * scale + 4 * du[k]):
            return ({"contour": cls, "clause": "sphere-points", "n_dim": nd},
                    "point %d maps back to u = %r but sphere_points[%d] = %r" % (k, [float(v) for v in uu[k]], k, [float(v) for v in sp[k]]))
    # directions
    if r_want > 1e-6 and judge.all():
        unit = uu / dist[:, None] * (1.0 if b_want > 0 else -1.0)
        if nd == 2:
            for k in range(n):
                phi = k * 2 * math.pi / n
                want = np.array([math.cos(phi), math.sin(phi)])
                if np.abs(unit[k] - want).max() > 1e-8 + 4 * dsum[k] / r_want:
                    return ({"contour": cls, "clause": "angles", "n_dim": 2},
                            "point %d has direction %r in U-space, expected angle %d*2pi/%d = %r" % (k, [float(v) for v in unit[k]], k, n, [float(v) for v in want]))
        else:
            gram = unit @ unit.T
            np.fill_diagonal(gram, -1.0)
            j, k = np.unravel_index(np.argmax(gram), gram.shape)
            stats["min_sep"] = float(math.acos(min(1.0, gram[j, k])))
            if gram[j, k] > 1 - 1e-9:
                return ({"contour": cls, "clause": "distinct-directions", "n_dim": nd}, "points %d and %d have the same direction in U-space" % (j, k))
    # largest first coordinate of a 2-D IFORM contour = marginal (1-alpha)-quantile
    if nd == 2 and cls == "iform" and spec["alpha"] <= 0.5:
        d0 = model.distributions[0]
        if rec is not None:
            rec.on = False
        with np.errstate(all="ignore"):
            p1 = 1 - spec["alpha"]
            q = float(d0.icdf(p1))
            qs = [float(d0.icdf(min(p1 + 8 * np.spacing(p1), np.nextafter(1.0, 0.0)))), float(d0.icdf(p1 - 8 * np.spacing(p1)))]
        if rec is not None:
            rec.on = True
        tolq = 1e-9 * max(abs(q), 1e-300) + 2 * max(abs(qs[0] - q), abs(qs[1] - q))
        m = float(coords[:, 0].max())
        if np.isfinite(q) and np.isfinite(tolq):
            if not abs(m - q) <= tolq:
                return ({"contour": cls, "clause": "max-first-coordinate", "n_dim": 2},
                        "max of first coordinate = %r but the marginal (1-alpha)-quantile is %r" % (m, q))
            if not abs(float(coords[0, 0]) - m) <= tolq:
                return ({"contour": cls, "clause": "max-first-coordinate", "n_dim": 2},
                        "the maximum of the first coordinate is not attained at point 0 (angle 0)")
        else:
            stats["unjudgeable_max"] = 1
    return None


def repeat_oracle(spec):
    """the same contour computed again in the same process (another contour with the same n_points in between) is the same
    contour, and it is still a valid one: no state shared between contour objects / NSphere instances"""
    try:
        with np.errstate(all="ignore"):
            model = build_model(spec)
            c1 = make_contour(spec, model)
            other = dict(spec, alpha=(0.03 if spec["alpha"] != 0.03 else 0.2), kind=("isorm" if spec["kind"] == "iform" else "iform"))
            make_contour(other, model)
            c2 = make_contour(spec, model)
    except Exception as e:  # noqa
        return ({"contour": spec["kind"], "clause": "unexpected-exception", "exc": type(e).__name__},
                "%s raised %s: %s" % (spec["kind"], type(e).__name__, e))
    for attr in ("coordinates", "sphere_points"):
        a, b = np.asarray(getattr(c1, attr), dtype=float), np.asarray(getattr(c2, attr), dtype=float)
        if a.shape != b.shape or not np.array_equal(a, b, equal_nan=True):
            return ({"contour": spec["kind"], "clause": "repeatable", "n_dim": len(spec["dims"])},
                    "%s of the same contour computed twice (one other contour in between) differ" % attr)
    return oracle(spec, model, c2)


FIT_FAMS = ("weibull", "lognormal", "normal", "scipygamma")   # quick, reliable MLE fits


def apply_history(spec, model, hist):
    """change the parameters of ONE model object the ways a user does between two contours: assign new parameter values to
    the unconditional distributions, give a dependence function new coefficients, or (re-)fit the first variable to data"""
    op, f = hist["op"], hist.get("factor", 1.3)
    if op == "fit":
        d0 = model.distributions[0]
        sample = np.asarray(d0.draw_sample(400, random_state=hist.get("seed", 1)), dtype=float)
        d0.fit(sample * f)
        return "distributions[0].fit(%g * 400 draws of itself)" % f
    if op == "dep":
        for i, d in enumerate(spec["dims"]):
            if d["cond"] is not None:
                for nm, fn in model.distributions[i].conditional_parameters.items():
                    keys = list(fn.parameters)
                    fn.parameters = dict(fn.parameters, **{keys[0]: fn.parameters[keys[0]] * f})
                    return "distributions[%d].conditional_parameters[%r].parameters[%r] *= %g" % (i, nm, keys[0], f)
    done = []
    for i, d in enumerate(spec["dims"]):
        if d["cond"] is None:
            for (nm, kind, lo, hi) in FAMS[d["fam"]][1]:
                old_v = getattr(model.distributions[i], nm)
                setattr(model.distributions[i], nm, old_v * f if kind == "pos" else old_v + (f - 1.0))
                done.append("distributions[%d].%s" % (i, nm))
    return "assigned new values to " + ", ".join(done)


def history_oracle(spec, hist):
    """contour -> parameter change / fit on the SAME model object -> contour again; the second contour is judged against
    the model's CURRENT cdfs (the property speaks about the model as it is when the contour is computed)"""
    try:
        with np.errstate(all="ignore"):
            model = build_model(spec)
            c1 = make_contour(spec, model)
            o = oracle(spec, model, c1)
            if o is not None:
                return o
            what = apply_history(spec, model, hist)
            c2 = make_contour(spec, model)
    except Exception as e:  # noqa
        return ({"contour": spec["kind"], "clause": "unexpected-exception", "exc": type(e).__name__, "history": hist["op"]},
                "%s raised %s: %s" % (spec["kind"], type(e).__name__, e))
    o = oracle(spec, model, c2)
    if o is not None:
        sig = dict(o[0], history=hist["op"])
        return (sig, "after a first contour and then [%s] on the same model object, the new contour: %s" % (what, o[1]))
    return None


def run_spec(spec, rec=None):
    """real contour + oracle; returns (model, contour or None, oracle result, stats)"""
    stats = {}
    try:
        with np.errstate(all="ignore"):
            model = build_model(spec, rec)
            if rec is not None:
                with recording(rec):
                    contour = make_contour(spec, model)
            else:
                contour = make_contour(spec, model)
    except Exception as e:  # noqa
        return None, None, ({"contour": spec["kind"], "clause": "unexpected-exception", "exc": type(e).__name__},
                            "%s raised %s: %s" % (spec["kind"], type(e).__name__, e)), stats
    o = oracle(spec, model, contour, rec, stats)
    return model, contour, o, stats


def replay(ctx, spec):
    """True = the property fails on this input (a contour specification, or {"nsphere": [dim, n]})"""
    if "nsphere" in spec:
        dim, n = spec["nsphere"]
        s, _ = nsphere_trace(dim, n)
        o = nsphere_oracle(dim, n, s)
    elif "calculate_alpha" in spec:
        o = calculate_alpha_oracle(*spec["calculate_alpha"])
    elif "history" in spec:
        o = history_oracle(spec["spec"], spec["history"])
    else:
        _, _, o, _ = run_spec(spec)
        if o is None and len(spec.get("dims", [0, 0])) >= 2:
            o = repeat_oracle(spec)
    if o:
        print("  ", o[1])
    return o is not None


def calculate_alpha_oracle(sd, rp):
    vc = _vc()
    a = vc.contours.calculate_alpha(sd, rp)
    want = sd / (rp * 365.25 * 24)
    if not abs(a - want) <= 4e-16 * abs(want):
        return ({"contour": "calculate_alpha", "clause": "alpha"}, "calculate_alpha(%r, %r) = %r, expected %r" % (sd, rp, a, want))
    return None


def shrink(spec, clause, runner=None):
    def fails(s):
        try:
            if runner is not None:
                o = runner(s)
            elif clause == "repeatable":
                o = repeat_oracle(s)
            else:
                _, _, o, _ = run_spec(s)
        except Exception:
            return False
        return o is not None and o[0].get("clause") == clause
    cur = spec
    changed = True
    rounds = 0
    while changed and rounds < 25:
        rounds += 1
        changed = False
        cands = []
        if len(cur["dims"]) > 2 and "predefined" not in cur:   # drop a variable nobody is conditional on (re-index the later conditional_on entries)
            for j in range(len(cur["dims"]) - 1, 0, -1):
                if all(d["cond"] != j for d in cur["dims"]):
                    rest = [dict(d, cond=(d["cond"] - 1 if d["cond"] is not None and d["cond"] > j else d["cond"]))
                            for k2, d in enumerate(cur["dims"]) if k2 != j]
                    cands.append(dict(cur, dims=rest))
        for npnt in (3, 4, 8):
            if n_points_of(cur) > npnt:
                cands.append(dict(cur, n_points=npnt))
        if cur["alpha"] not in (0.1, 0.01):   # one step only (a strictly decreasing measure keeps the loop finite)
            for a in (0.1, 0.01):
                cands.append(dict(cur, alpha=a))
            if float("%.2g" % cur["alpha"]) != cur["alpha"]:
                cands.append(dict(cur, alpha=float("%.2g" % cur["alpha"])))
        for i, d in enumerate(cur["dims"] if "predefined" not in cur else []):
            for nm, v in d["par"].items():
                if isinstance(v, dict) and sum(isinstance(w, dict) for w in d["par"].values()) > 1:
                    lo = [p for p in FAMS[d["fam"]][1] if p[0] == nm][0]
                    d2 = dict(d, par=dict(d["par"], **{nm: float(round(0.5 * (lo[2] + lo[3]), 3))}))
                    cands.append(dict(cur, dims=cur["dims"][:i] + [d2] + cur["dims"][i + 1:]))
        for c in cands:
            if fails(c):
                cur, changed = c, True
                break
    return cur


# ------------------------------------------------------------------ Coq side
PRELUDE = """From V.base Require Import FloatBits.
From V.model Require Import Iform.
Local Open Scope float_scope.
Definition mat_all (e : float -> float -> bool) := list_eqb (list_eqb e).
Definition isnan (x : float) : bool := negb (PrimFloat.eqb x x).
Definition nan_mat (m : list (list float)) : bool := existsb (existsb isnan) m.
(* 0 bit-exact; 1 within 1e-9; 2 beta; 3 sphere_points; 4 coordinates; 5 Rosenblatt image (cdf direction);
   92..95 the model hit a key the implementation never asked for (nan) in beta / sphere / coordinates / cdf image *)
Definition cmp_case (r : contour float) (ds : list fdist) (eb : float) (es ec epp : list (list float)) : Z :=
  let pp := map (rosenF ds) ec in
  (if isnan (beta r) then 92
   else if nan_mat (sphere_points r) then 93
   else if nan_mat (coordinates r) then 94
   else if nan_mat pp then 95
   else if negb (fclose (beta r) eb) then 2
   else if negb (mat_all fclose (sphere_points r) es) then 3
   else if negb (mat_all fclose (coordinates r) ec) then 4
   else if negb (mat_all fclose pp epp) then 5
   else if fbits_eq (beta r) eb && mat_all fbits_eq (sphere_points r) es && mat_all fbits_eq (coordinates r) ec
           && mat_all fbits_eq pp epp then 0 else 1)%Z.
Definition cmp_mat (a b : list (list float)) : Z :=
  (if nan_mat a then 9 else if mat_all fbits_eq a b then 0 else if mat_all fclose a b then 1 else 2)%Z.
"""


def tab1(d):
    return "[" + "; ".join("(%s, %s)" % (fl(a), fl(b)) for a, b in d.values()) + "]"


def tabT(d):
    return "[" + "; ".join("((%s, %s), %s)" % (fl_list(th), fl(x), fl(y)) for th, x, y in d.values()) + "]"


def opt_nat(c):
    return "None" if c is None else "(Some %d%%nat)" % c


def coq_case(k, spec, rec, contour, pp):
    nd = len(spec["dims"])
    ds = []
    for i, d in enumerate(spec["dims"]):
        names = [p[0] for p in FAMS[d["fam"]][1]]
        ps = []
        if d["cond"] is not None:
            for nm in names:
                v = d["par"][nm]
                ps.append("dep_tab %s" % tab1(rec.dep.get((i, nm), {})) if isinstance(v, dict) else "PFix %s" % fl(v))
        psl = "[" + "; ".join(ps) + "]"
        if d["fam"] == "alg":
            a_self = d["par"]["a"] if not isinstance(d["par"]["a"], dict) else 1.0
            ds.append("alg_dist %s %s %s" % (opt_nat(d["cond"]), psl, fl(a_self)))
        else:
            ds.append("tab_dist %s %s %s %s" % (opt_nat(d["cond"]), psl, tabT(rec.t_icdf.get(i, {})), tabT(rec.t_cdf.get(i, {}))))
    chi2 = "[" + "; ".join("((%s, %d%%nat), %s)" % (fl(p), df, fl(v)) for p, df, v in rec.chi2.values()) + "]"
    nsph = "[" + "; ".join("((%d%%nat, %d%%nat), %s)" % (dim, n, fl_mat(rows)) for (dim, n), rows in rec.nsph.items()) + "]"
    txt = "Definition ft_%d := mkft %s %s %s %s %s %s.\n" % (k, tab1(rec.phi), tab1(rec.phiinv), tab1(rec.cos), tab1(rec.sin), chi2, nsph)
    txt += "Definition ds_%d : list fdist := [%s].\n" % (k, ";\n  ".join(ds))
    fn = "iform_vecF" if spec["kind"] == "iform" else "isormF"   # IFORM: the column-wise evaluation of the code
    txt += "Definition c_%d : Z := cmp_case (%s ft_%d ds_%d %s %d%%nat) ds_%d %s %s %s %s.\n" % (
        k, fn, k, k, fl(spec["alpha"]), n_points_of(spec), k, fl(float(contour.beta)),
        fl_mat(np.asarray(contour.sphere_points, dtype=float)), fl_mat(np.asarray(contour.coordinates, dtype=float)), fl_mat(pp))
    return txt


CODES = {1: "within 1e-9 (not bit-exact)", 2: "beta", 3: "sphere_points", 4: "coordinates", 5: "cdf image (Rosenblatt direction)",
         92: "beta: oracle key never asked for by the implementation", 93: "sphere_points: oracle key never asked for",
         94: "coordinates: icdf / dependence key never asked for by the implementation (different data flow)",
         95: "cdf image: key never asked for"}


# ------------------------------------------------------------------ NSphere trace
def nsphere_trace(dim, n):
    """run the real NSphere(dim, n) with its engines recorded: normal draws, forces and potential per state"""
    vc = _vc()
    mod = vc._nsphere
    cls = mod.NSphere
    tr = {"rand": None, "states": {}, "order": []}

    def key(a):
        return a.tobytes()

    def entry(a):
        k = key(a)
        if k not in tr["states"]:
            tr["states"][k] = {"state": np.array(a, copy=True), "F": None, "pot": None}
            tr["order"].append(k)
        return tr["states"][k]

    class _RS(_Fwd):
        def normal(self, *a, **k):
            out = self._real.normal(*a, **k)
            tr["rand"] = np.array(out, copy=True)
            return out

    class _Random(_Fwd):
        def RandomState(self, *a, **k):
            return _RS(self._real.RandomState(*a, **k))

    class _Np(_Fwd):
        @property
        def random(self):
            return _Random(self._real.random)

    old = (mod.np, cls._get_forces, cls._pot_energy)

    def get_forces(self):
        e = entry(self.unit_sphere_points)
        out = old[1](self)
        e["F"] = np.array(out, copy=True)
        return out

    def pot_energy(self):
        e = entry(self.unit_sphere_points)
        out = old[2](self)
        e["pot"] = float(out)
        return out
    mod.np, cls._get_forces, cls._pot_energy = _Np(old[0]), get_forces, pot_energy
    try:
        with np.errstate(all="ignore"):
            s = cls(dim, n)
    finally:
        mod.np, cls._get_forces, cls._pot_energy = old
    return s, tr


def coq_nsphere_case(k, dim, n, s, tr):
    ents = []
    for key in tr["order"]:
        e = tr["states"][key]
        F = "[]" if e["F"] is None else fl_mat(e["F"])
        ents.append("(%s, (%s, %s))" % (fl_mat(e["state"]), F, fl(e["pot"] if e["pot"] is not None else float("nan"))))
    rand = fl_mat(tr["rand"]) if tr["rand"] is not None else "[]"
    return ("Definition nst_%d : nstab := [%s].\nDefinition nsr_%d := %s.\n"
            "Definition ns_%d : Z := cmp_mat (nsphereF nsr_%d nst_%d %d%%nat %d%%nat) %s.\n"
            % (k, ";\n ".join(ents), k, rand, k, k, k, dim, n, fl_mat(np.asarray(s.unit_sphere_points, dtype=float))))


def nsphere_oracle(dim, n, s):
    u = np.asarray(s.unit_sphere_points, dtype=float)
    if u.shape != (n, dim):
        return ({"contour": "nsphere", "clause": "count"}, "NSphere(%d, %d) returns shape %r" % (dim, n, u.shape))
    nr = np.sqrt((u ** 2).sum(axis=1))
    if not np.all(np.abs(nr - 1) <= 1e-12):
        return ({"contour": "nsphere", "clause": "unit-norm"}, "NSphere(%d, %d): a point has norm %r" % (dim, n, float(nr[np.argmax(np.abs(nr - 1))])))
    return None


# ------------------------------------------------------------------ run
def run(ctx):
    _vc()
    ctx.proof_gate()
    rng = ctx.rng
    tm = {"proof_gate": round(time.time() - ctx.t0, 1)}
    t_last = [time.time()]

    def lap(name):
        tm[name] = round(time.time() - t_last[0], 1)
        t_last[0] = time.time()
    ncases = ctx.n(200, 4000)
    structures = [s for nd in (2, 3, 4) for s in cond_structures(nd)]
    # every admissible conditional_on structure (incl. the chains [None, 0, 1] and [None, 0, 1, 2]) with IFORM and with ISORM first
    specs = [gen_spec(rng, structure=st, kind=kd) for st in structures for kd in ("iform", "isorm")]
    specs += [gen_spec(rng) for _ in range(ncases - len(specs))]
    # a few fixed corner configurations
    for sp, (a, npnt) in zip(specs[2 * len(structures):], [(0.5, 3), (1e-8, 40), (1e-8, 3), (0.5, 40)]):
        sp["alpha"], sp["n_points"] = a, npnt
    # alpha in (0.5, 1): inside the statement's (0,1), outside the quantifier (beta < 0 for IFORM)
    for _ in range(ctx.n(16, 200)):
        sp = gen_spec(rng)
        sp["alpha"] = float(round(rng.uniform(0.5, 0.999), 6))
        specs.append(sp)
    # every predefined hierarchical model, fitted to shipped data sets; alpha from calculate_alpha and the range ends;
    # default number of points (180) and explicit ones
    vc = _vc()
    pre_alphas = [float(vc.contours.calculate_alpha(1, 50)), float(vc.contours.calculate_alpha(3, 1)), 1e-8, 0.5,
                  float(vc.contours.calculate_alpha(1.0, 20.0)), 0.01]
    for j, (name, dataset, swap) in enumerate(PREDEFINED):
        for kd in ("iform", "isorm"):
            for a in rng.sample(pre_alphas, ctx.n(2, 6)):
                specs.append({"predefined": name, "dataset": dataset, "swap": swap, "kind": kd, "alpha": a,
                              "n_points": None if rng.random() < 0.3 else rng.randrange(3, 41)})

    cases = []   # (spec, rec, model, contour, oracle result, stats)
    dist = {"kind": {}, "n_dim": {}, "family": {}, "structure": {}, "shape": {}}
    judged = unjudge = 0
    min_sep = math.pi
    for sp in specs:
        rec = Recorder()
        model, contour, o, st = run_spec(sp, rec)
        cases.append((sp, rec, model, contour, o, st))
        judged += st.get("judged", 0)
        unjudge += st.get("unjudgeable", 0)
        min_sep = min(min_sep, st.get("min_sep", math.pi))
        if "dims" not in sp:      # construction itself failed
            continue
        nd = len(sp["dims"])
        for kk, vv in (("kind", sp["kind"]), ("n_dim", nd), ("structure", "%s %s" % (sp["kind"], [d["cond"] for d in sp["dims"]]))):
            dist[kk][vv] = dist[kk].get(vv, 0) + 1
        if "predefined" in sp:
            dist.setdefault("predefined", {})
            dist["predefined"][sp["predefined"]] = dist["predefined"].get(sp["predefined"], 0) + 1
        if sp["alpha"] > 0.5:
            dist.setdefault("alpha>0.5", {"n": 0})["n"] += 1
        if sp.get("n_points") is None:
            dist.setdefault("default_n_points", {"n": 0})["n"] += 1
        for d in sp["dims"]:
            if any(isinstance(v, int) for v in d["par"].values()):
                dist.setdefault("int_parameter_dims", {"n": 0})["n"] += 1
            dist["family"][d["fam"]] = dist["family"].get(d["fam"], 0) + 1
            for v in d["par"].values():
                if isinstance(v, dict):
                    dist["shape"][v["shape"]] = dist["shape"].get(v["shape"], 0) + 1
        nontriv = contour is not None and any(d["cond"] is not None for d in sp["dims"]) and \
            float(np.ptp(np.asarray(contour.coordinates, dtype=float), axis=0).max()) > 0
        ctx.count(sp, nontriv)
    ctx.notes["input_distribution"] = dist
    ctx.notes["alpha_range"] = [min(s["alpha"] for s in specs), max(s["alpha"] for s in specs)]
    ctx.notes["oracle_points"] = {"judged": judged, "unjudgeable_numerical_saturation": unjudge,
                                  "min_direction_separation_rad_nd>=3": min_sep}
    for sp, rec, model, contour, o, st in cases[:2]:
        ctx.sample({"spec": sp, "beta": None if contour is None else float(contour.beta),
                    "first_point": None if contour is None else [float(v) for v in np.asarray(contour.coordinates)[0]]})

    lap("real_contours_and_oracle")
    # ---- correspondence: contours
    per = 12
    items, index = [], []
    good = [(i, c) for i, c in enumerate(cases) if c[3] is not None and "pp" in c[5] and not c[1].bad]
    for i, c in enumerate(cases):
        if c[1].bad:
            ctx.mismatch("contour case %d" % i, "engine called in an unexpected way: %s" % c[1].bad[:2])
    for s in range(0, len(good), per):
        chunk = good[s:s + per]
        body = PRELUDE + "".join(coq_case(i, c[0], c[1], c[3], c[5]["pp"]) for i, c in chunk)
        body += "Eval vm_compute in [%s].\n" % "; ".join("c_%d" % i for i, _ in chunk)
        items.append(("cases_%d" % (s // per), body))
        index.append([i for i, _ in chunk])
    # ---- correspondence: NSphere (full relaxation loop, every iteration)
    ns_cfg = []
    used = sorted({(len(c[0]["dims"]), c[0]["n_points"]) for c in cases if len(c[0].get("dims", [])) > 2 and c[0].get("n_points")})
    for dim in (3, 4):
        cand = [u for u in used if u[0] == dim] or [(dim, rng.randrange(3, 41))]
        for _ in range(ctx.n(1, 4)):
            ns_cfg.append(rng.choice(cand))
    ns_cfg = sorted(set(ns_cfg))
    ns_runs = []
    for k, (dim, n) in enumerate(ns_cfg):
        s, tr = nsphere_trace(dim, n)
        ns_runs.append((dim, n, s, tr))
        items.append(("nsphere_%d" % k, PRELUDE + coq_nsphere_case(k, dim, n, s, tr) + "Eval vm_compute in [ns_%d].\n" % k))
        index.append(("ns", k))
        ctx.count(("nsphere", dim, n), True)
    # ---- correspondence: calculate_alpha (floats and ints), bit for bit
    ca_in = []
    for _ in range(ctx.n(60, 600)):
        sd = rng.choice([1, 3, 6, 0.5, 1.0, round(rng.uniform(0.1, 12), 3)])
        rp = rng.choice([1, 20, 25, 50, 100, 0.5, round(rng.uniform(0.1, 1000), 3)])
        ca_in.append((sd, rp, float(vc.contours.calculate_alpha(sd, rp))))
    items.append(("calc_alpha", PRELUDE + "Eval vm_compute in [%s].\n" % "; ".join(
        "(if fbits_eq (calculate_alphaF %s %s) %s then 0 else 2)%%Z" % (fl(sd), fl(rp), fl(a)) for sd, rp, a in ca_in)))
    index.append(("ca", 0))
    lap("case_files_and_nsphere_traces")
    outs = ctx.coq_eval_many(items, jobs=12, timeout=1500)
    lap("coq_evaluation")
    ncmp = nexact = 0
    inexact = []
    ca_bad = []
    suspects = []
    ns_bad = []
    for idx, o in zip(index, outs):
        if o is None:
            continue
        codes = vlib.parse_term(o[0])
        if isinstance(idx, tuple) and idx[0] == "ca":
            for (sd, rp, a), code in zip(ca_in, codes):
                ncmp += 1
                nexact += code == 0
                if code != 0:
                    ctx.mismatch("calculate_alpha(%r, %r)" % (sd, rp), "model and implementation differ")
                    ca_bad.append((sd, rp))
            continue
        if isinstance(idx, tuple):
            dim, n, s, tr = ns_runs[idx[1]]
            ncmp += 1
            nexact += codes[0] == 0
            if codes[0] == 1:
                inexact.append("NSphere(%d, %d)" % (dim, n))
            if codes[0] not in (0, 1):
                ctx.mismatch("NSphere(%d, %d)" % (dim, n), "model of the relaxation loop and implementation differ (code %r)" % codes[0])
                ns_bad.append((dim, n, s))
            continue
        for i, code in zip(idx, codes):
            ncmp += 1
            nexact += code == 0
            if code == 1:
                inexact.append("contour case %d (%s, n_dim %d)" % (i, cases[i][0]["kind"], len(cases[i][0]["dims"])))
            if code not in (0, 1):
                ctx.mismatch("contour case %d" % i, "%s differ: %r" % (CODES.get(code, code), cases[i][0]))
                suspects.append(i)
    ctx.cov["programs"] = 3
    ctx.notes["correspondence"] = {"cases_compared": ncmp, "bit_exact": nexact, "mismatches": len(suspects) + len(ns_bad),
                                   "within_1e-9_not_bit_exact": inexact[:10],
                                   "nsphere_full_loops": [(d, n) for d, n, _, _ in ns_runs]}
    # ---- search: property oracle, disagreeing inputs first, then everything
    found = 0
    order = suspects + [i for i in range(len(cases)) if i not in suspects]
    for i in order:
        if found >= 6:
            break
        sp, rec, model, contour, o, st = cases[i]
        if o is None:
            continue
        small = shrink(sp, o[0].get("clause"))
        _, _, o2, _ = run_spec(small)
        o2 = o2 or o
        if ctx.violation(o2[0], "%s contour: %s" % (sp["kind"].upper(), o2[1]), small):
            found += 1
    for dim, n, s, tr in ns_runs:
        o = nsphere_oracle(dim, n, s)
        if o and ctx.violation(o[0], o[1], {"nsphere": [dim, n]}):
            found += 1
    lap("search")
    # oracle-only sweep over EVERY n_points in 3..400 (2-D models: point count, distinct equally spaced angles, distance, max clause)
    sweep_specs = []
    while len(sweep_specs) < 2:   # von Mises quantiles are a root search per point (minutes over 400 contours): not in the sweep
        sp = gen_spec(rng, structure=rng.choice(cond_structures(2)))
        if all(d["fam"] != "vonmises" for d in sp["dims"]):
            sweep_specs.append(sp)
    nsweep = 0
    for n_pts in range(3, ctx.n(401, 1201)):
        sp = dict(sweep_specs[n_pts % 2], n_points=n_pts, kind="iform" if n_pts % 3 else "isorm")
        _, _, o, _ = run_spec(sp)
        nsweep += 1
        if o is not None and found < 8:
            small = shrink(sp, o[0].get("clause"))
            _, _, o2, _ = run_spec(small)
            o2 = o2 or o
            if ctx.violation(o2[0], "%s contour (n_points sweep): %s" % (sp["kind"].upper(), o2[1]), small):
                found += 1
    lap("n_points_sweep")
    # calculate_alpha: the documented formula on the disagreeing inputs first, then on all
    for sd, rp in ca_bad + [(x, y) for x, y, _ in ca_in]:
        o = calculate_alpha_oracle(sd, rp)
        if o and ctx.violation(o[0], o[1], {"calculate_alpha": [sd, rp]}):
            found += 1
            break
    # n_dim 3 and 4 with many points (NSphere with 41..200 samples, and the default of 180): oracle only
    nbig = 0
    for k in range(ctx.n(8, 60)):
        sp = gen_spec(rng, structure=rng.choice(cond_structures(rng.choice([3, 4]))))
        sp["n_points"] = None if k % 4 == 0 else rng.randrange(41, 201)
        _, _, o, st = run_spec(sp)
        nbig += 1
        min_sep = min(min_sep, st.get("min_sep", math.pi))
        if o is not None and found < 8:
            small = shrink(sp, o[0].get("clause"))
            _, _, o2, _ = run_spec(small)
            o2 = o2 or o
            if ctx.violation(o2[0], "%s contour (many points): %s" % (sp["kind"].upper(), o2[1]), small):
                found += 1
    lap("many_points")
    # the same contour computed twice in one process (another contour with equal n_points in between)
    nrep = 0
    rep_specs = [c[0] for i, c in enumerate(cases) if "dims" in c[0] and (("predefined" in c[0] and i % 4 == 0) or (len(c[0]["dims"]) > 2 and i % 6 == 0))]
    for sp in rep_specs[:ctx.n(40, 400)]:
        o = repeat_oracle(sp)
        nrep += 1
        if o is not None and found < 8:
            small = shrink(sp, o[0].get("clause"))
            o2 = repeat_oracle(small) or o
            if ctx.violation(o2[0], "%s contour (computed twice): %s" % (sp["kind"].upper(), o2[1]), small):
                found += 1
    lap("computed_twice")
    # histories on one model object: contour -> assign parameters / new dependence coefficients / fit -> contour again,
    # every family once as the (unconditional) first variable, then random models
    nhist = 0
    hist_specs = []
    for fam in FAM_NAMES:
        for op in ("assign", "fit" if fam in FIT_FAMS else "assign", "dep"):
            st = rng.choice([s2 for s2 in structures if len(s2) <= 3 and (op != "dep" or any(c is not None for c in s2))])
            hist_specs.append((gen_spec(rng, structure=st, fam0=fam), {"op": op, "factor": round(rng.uniform(1.1, 1.6), 2), "seed": rng.randrange(1000)}))
    for _ in range(ctx.n(10, 300)):
        sp = gen_spec(rng)
        ops = ["assign"] + (["fit"] if sp["dims"][0]["fam"] in FIT_FAMS else []) + (["dep"] if any(d["cond"] is not None for d in sp["dims"]) else [])
        hist_specs.append((sp, {"op": rng.choice(ops), "factor": round(rng.uniform(1.1, 1.6), 2), "seed": rng.randrange(1000)}))
    hist_ops = {}
    for sp, hist in hist_specs:
        sp["n_points"] = min(sp["n_points"], 12)
        o = history_oracle(sp, hist)
        nhist += 1
        hist_ops[hist["op"]] = hist_ops.get(hist["op"], 0) + 1
        if o is not None and found < 8:
            small = shrink(sp, o[0].get("clause"), runner=lambda s2, h=hist: history_oracle(s2, h))
            o2 = history_oracle(small, hist) or o
            if ctx.violation(o2[0], "%s contour (history): %s" % (sp["kind"].upper(), o2[1]), {"history": hist, "spec": small}):
                found += 1
    lap("histories")
    ctx.notes["histories"] = {"runs": nhist, "operations": hist_ops, "first_variable_families": FAM_NAMES}
    ctx.notes["timing_s"] = tm
    ctx.cov["evaluations"] += nsweep + nbig + nrep + nhist + len(ca_in)
    ctx.notes["extra_streams"] = {"n_dim>=3_many_points_oracle_only": nbig, "computed_twice": nrep, "calculate_alpha_pairs": len(ca_in)}
    ctx.notes["oracle_points"]["min_direction_separation_rad_nd>=3"] = min_sep
    ctx.notes["n_points_sweep"] = "every n_points in 3..%d on two 2-D models (oracle only)" % (ctx.n(401, 1201) - 1)
    ctx.cov["rule"] = ("random GlobalHierarchicalModels: n_dim 2-4, every admissible conditional_on (all 32 structures first), 9 families "
                       "(7 shipped + ScipyDistribution(gamma) + an algebraic duck-typed one), fixed/dependent parameter subsets, 9 dependence shapes "
                       "incl. chained, int- and float-typed parameters; all 32 structures x {IFORM, ISORM}; the 4 predefined hierarchical models fitted to shipped data sets "
                       "(alpha from calculate_alpha); alpha log-uniform in [1e-8, 0.5] + end points, a stream in (0.5, 1); n_points 3-40 and the default 180 in the "
                       "correspondence, every n_points in 3..400 (2-D) and 41-200 (3-/4-D) through the oracle; contours computed twice; histories on one model object (contour, assign / dependence coefficients / fit, contour) with every family as first variable; non-trivial = at least one "
                       "conditional variable and a contour whose points are not all equal; distinct = hash of the specification")
    ctx.cov["trusted_base"] = ["Coq 8.16.1 kernel + vm_compute (primitive floats)", "harness tools/harness/c01.py (generators, recorders, comparison)",
                               "scipy norm/chi2/family cdf-ppf, numpy cos/sin/RandomState.normal, NSphere forces/potential as recorded oracles",
                               "numpy broadcasting of vector calls = pointwise calls (checked by the table lookups of the scalar model)"]
    ctx.assumptions += ["oracle contracts of props/C01.v: template cdf(icdf(p)) = p on (0,1); Phi strictly increasing with inverse Phiinv; "
                        "icdf of the first variable non-decreasing; forces oracle preserves the shape of the state; no all-zero normal draw",
                        "binary64 rounding against the reals is not bounded by a theorem (validated by the property oracle's tail-aware tolerance)",
                        "distinctness of the NSphere directions (n_dim >= 3) is validated numerically only"]
