(* C11 -- fixed parameters are honoured at construction, in evaluation and through fitting (property theorems only) *)
From Coq Require Import Reals List String Bool.
From V.base Require Import Num.
From V.gen Require Import Distributions.
From V.model Require Import DistHand Conditional ScipyDist.
From V.proofs Require Import DistProofs DistFitProofs DistDocProofs CondProofs ScipyDistProofs.
Import ListNotations.
Local Open Scope R_scope.
Local Open Scope string_scope.
Local Open Scope list_scope.

(* Weibull: a parameter declared fixed has that value from construction on (generated __init__) *)
Theorem C11_W_constructor :
  forall (a b g : R) (fa fb fg : option R),
       let s := WeibullDistribution_init a b g fa fb fg in
       WeibullDistribution_alpha s = ov fa a /\
       WeibullDistribution_beta s = ov fb b /\
       WeibullDistribution_gamma s = ov fg g /\
       WeibullDistribution_f_alpha s = fa /\
       WeibullDistribution_f_beta s = fb /\ WeibullDistribution_f_gamma s = fg.
Proof. exact (@W_init_fixed). Qed.

(* LogNormal: a parameter declared fixed has that value from construction on (generated __init__) *)
Theorem C11_LN_constructor :
  forall (m sg : R) (fm fs : option R),
       let s := LogNormalDistribution_init m sg fm fs in
       LogNormalDistribution_mu s = ov fm m /\
       LogNormalDistribution_sigma s = ov fs sg /\
       LogNormalDistribution_f_mu s = fm /\ LogNormalDistribution_f_sigma s = fs.
Proof. exact (@LN_init_fixed). Qed.

(* Normal: a parameter declared fixed has that value from construction on (generated __init__) *)
Theorem C11_N_constructor :
  forall (m sg : R) (fm fs : option R),
       let s := NormalDistribution_init m sg fm fs in
       NormalDistribution_mu s = ov fm m /\
       NormalDistribution_sigma s = ov fs sg /\
       NormalDistribution_f_mu s = fm /\ NormalDistribution_f_sigma s = fs.
Proof. exact (@N_init_fixed). Qed.

(* ExponentiatedWeibull: a parameter declared fixed has that value from construction on (generated __init__) *)
Theorem C11_EW_constructor :
  forall (a b d : R) (xa xb xd : option R),
       let s := ExponentiatedWeibullDistribution_init a b d xa xb xd in
       ExponentiatedWeibullDistribution_alpha s = ov xa a /\
       ExponentiatedWeibullDistribution_beta s = ov xb b /\
       ExponentiatedWeibullDistribution_delta s = ov xd d /\
       ExponentiatedWeibullDistribution_f_alpha s = xa /\
       ExponentiatedWeibullDistribution_f_beta s = xb /\ ExponentiatedWeibullDistribution_f_delta s = xd.
Proof. exact (@EW_init_fixed). Qed.

(* GeneralizedGamma: a parameter declared fixed has that value from construction on (generated __init__) *)
Theorem C11_GG_constructor :
  forall (m c l : R) (xm xc xl : option R),
       let s := GeneralizedGammaDistribution_init m c l xm xc xl in
       GeneralizedGammaDistribution_m s = ov xm m /\
       GeneralizedGammaDistribution_c s = ov xc c /\
       GeneralizedGammaDistribution_lambda_ s = ov xl l /\
       GeneralizedGammaDistribution_f_m s = xm /\
       GeneralizedGammaDistribution_f_c s = xc /\ GeneralizedGammaDistribution_f_lambda_ s = xl.
Proof. exact (@GG_init_fixed). Qed.

(* VonMises: a parameter declared fixed has that value from construction on (generated __init__) *)
Theorem C11_VM_constructor :
  forall (k m : R) (xk xm : option R),
       let s := VonMisesDistribution_init k m xk xm in
       VonMisesDistribution_kappa s = ov xk k /\
       VonMisesDistribution_mu s = ov xm m /\
       VonMisesDistribution_f_kappa s = xk /\ VonMisesDistribution_f_mu s = xm.
Proof. exact (@VM_init_fixed). Qed.

(* LogNormalNormFit: a parameter declared fixed has that value from construction on (generated __init__) *)
Theorem C11_NF_constructor :
  forall (m sg : R) (fm fs : option R),
       let s := LogNormalNormFitDistribution_init m sg fm fs in
       LogNormalNormFitDistribution_mu_norm s = ov fm m /\
       LogNormalNormFitDistribution_sigma_norm s = ov fs sg /\
       LogNormalNormFitDistribution_f_mu_norm s = fm /\ LogNormalNormFitDistribution_f_sigma_norm s = fs.
Proof. exact (@NF_init_fixed). Qed.

(* Weibull: the generated _fit_mle makes exactly this scipy call and unpacks its result into these attributes *)
Theorem C11_W_fit_call :
  forall (fit : fitcall R -> list R) (s : WeibullDistribution),
       WeibullDistribution__fit_mle fit s =
       match fit (W_call s) with
       | [] => Err "ValueError:unpack"
       | [b] => Err "ValueError:unpack"
       | [b; g] => Err "ValueError:unpack"
       | [b; g; a] =>
           Ok
             {|
               WeibullDistribution_alpha := a;
               WeibullDistribution_beta := b;
               WeibullDistribution_gamma := g;
               WeibullDistribution_f_alpha := WeibullDistribution_f_alpha s;
               WeibullDistribution_f_beta := WeibullDistribution_f_beta s;
               WeibullDistribution_f_gamma := WeibullDistribution_f_gamma s
             |}
       | b :: g :: a :: _ :: _ => Err "ValueError:unpack"
       end.
Proof. exact (@W_fit_unfold). Qed.

(* Weibull: for EVERY subset of fixed parameters, every keyword handed to scipy is a start value or a valid fix-keyword of that family *)
Theorem C11_W_fit_keywords_valid :
  forall s : WeibullDistribution,
       forallb (fun kv : string * R => key_ok "weibull_min" (fst kv)) (f_kw (W_call s)) = true.
Proof. exact (@W_keys_valid). Qed.

(* Weibull: under the fit contract fitting succeeds, each fixed parameter still has exactly its value, the f_ attributes are unchanged (exact reals; binary64 round-off of exp/log and 1/x is outside the theorem) *)
Theorem C11_W_fit_fixed :
  forall (fit : fitcall R -> list R) (s : WeibullDistribution),
       fit_contract fit ->
       exists s' : WeibullDistribution,
         WeibullDistribution__fit_mle fit s = Ok s' /\
         (forall v : R, WeibullDistribution_f_alpha s = Some v -> WeibullDistribution_alpha s' = v) /\
         (forall v : R, WeibullDistribution_f_beta s = Some v -> WeibullDistribution_beta s' = v) /\
         (forall v : R, WeibullDistribution_f_gamma s = Some v -> WeibullDistribution_gamma s' = v) /\
         WeibullDistribution_f_alpha s' = WeibullDistribution_f_alpha s /\
         WeibullDistribution_f_beta s' = WeibullDistribution_f_beta s /\
         WeibullDistribution_f_gamma s' = WeibullDistribution_f_gamma s /\
         c_params (WeibullDistribution_cdf s' None None None) = fit (W_call s).
Proof. exact (@W_fit_fixed). Qed.

(* LogNormal: the generated _fit_mle makes exactly this scipy call and unpacks its result into these attributes *)
Theorem C11_LN_fit_call :
  forall (fit : fitcall R -> list R) (s : LogNormalDistribution),
       LogNormalDistribution__fit_mle RN fit s =
       match fit (LN_call s) with
       | [] => Err "ValueError:unpack"
       | [sg] | [sg; _] => Err "ValueError:unpack"
       | [sg; _; sc] =>
           Ok
             {|
               LogNormalDistribution_mu := ln sc;
               LogNormalDistribution_sigma := sg;
               LogNormalDistribution_f_mu := LogNormalDistribution_f_mu s;
               LogNormalDistribution_f_sigma := LogNormalDistribution_f_sigma s
             |}
       | sg :: _ :: sc :: _ :: _ => Err "ValueError:unpack"
       end.
Proof. exact (@LN_fit_unfold). Qed.

(* LogNormal: for EVERY subset of fixed parameters, every keyword handed to scipy is a start value or a valid fix-keyword of that family *)
Theorem C11_LN_fit_keywords_valid :
  forall s : LogNormalDistribution,
       forallb (fun kv : string * R => key_ok "lognorm" (fst kv)) (f_kw (LN_call s)) = true.
Proof. exact (@LN_keys_valid). Qed.

(* LogNormal: under the fit contract fitting succeeds, each fixed parameter still has exactly its value, the f_ attributes are unchanged (exact reals; binary64 round-off of exp/log and 1/x is outside the theorem) *)
Theorem C11_LN_fit_fixed :
  forall (fit : fitcall R -> list R) (s : LogNormalDistribution),
       fit_contract fit ->
       exists s' : LogNormalDistribution,
         LogNormalDistribution__fit_mle RN fit s = Ok s' /\
         (forall v : R, LogNormalDistribution_f_mu s = Some v -> LogNormalDistribution_mu s' = v) /\
         (forall v : R, LogNormalDistribution_f_sigma s = Some v -> LogNormalDistribution_sigma s' = v) /\
         LogNormalDistribution_f_mu s' = LogNormalDistribution_f_mu s /\
         LogNormalDistribution_f_sigma s' = LogNormalDistribution_f_sigma s /\
         (0 < nth 2 (fit (LN_call s)) 1 ->
          c_params (LogNormalDistribution_cdf RN s' None None) = fit (LN_call s)).
Proof. exact (@LN_fit_fixed). Qed.

(* Normal: the generated _fit_mle makes exactly this scipy call and unpacks its result into these attributes *)
Theorem C11_N_fit_call :
  forall (fit : fitcall R -> list R) (s : NormalDistribution),
       NormalDistribution__fit_mle fit s =
       match fit (N_call s) with
       | [] => Err "ValueError:unpack"
       | [m] => Err "ValueError:unpack"
       | [m; sg] =>
           Ok
             {|
               NormalDistribution_mu := m;
               NormalDistribution_sigma := sg;
               NormalDistribution_f_mu := NormalDistribution_f_mu s;
               NormalDistribution_f_sigma := NormalDistribution_f_sigma s
             |}
       | m :: sg :: _ :: _ => Err "ValueError:unpack"
       end.
Proof. exact (@N_fit_unfold). Qed.

(* Normal: for EVERY subset of fixed parameters, every keyword handed to scipy is a start value or a valid fix-keyword of that family *)
Theorem C11_N_fit_keywords_valid :
  forall s : NormalDistribution,
       forallb (fun kv : string * R => key_ok "norm" (fst kv)) (f_kw (N_call s)) = true.
Proof. exact (@N_keys_valid). Qed.

(* Normal: under the fit contract fitting succeeds, each fixed parameter still has exactly its value, the f_ attributes are unchanged (exact reals; binary64 round-off of exp/log and 1/x is outside the theorem) *)
Theorem C11_N_fit_fixed :
  forall (fit : fitcall R -> list R) (s : NormalDistribution),
       fit_contract fit ->
       exists s' : NormalDistribution,
         NormalDistribution__fit_mle fit s = Ok s' /\
         (forall v : R, NormalDistribution_f_mu s = Some v -> NormalDistribution_mu s' = v) /\
         (forall v : R, NormalDistribution_f_sigma s = Some v -> NormalDistribution_sigma s' = v) /\
         NormalDistribution_f_mu s' = NormalDistribution_f_mu s /\
         NormalDistribution_f_sigma s' = NormalDistribution_f_sigma s /\
         c_params (NormalDistribution_cdf s' None None) = fit (N_call s).
Proof. exact (@N_fit_fixed). Qed.

(* ExponentiatedWeibull: the generated _fit_mle makes exactly this scipy call and unpacks its result into these attributes *)
Theorem C11_EW_fit_call :
  forall (fit : fitcall R -> list R) (s : ExponentiatedWeibullDistribution),
       ExponentiatedWeibullDistribution__fit_mle RN fit s =
       match fit (EW_call s) with
       | [] => Err "ValueError:unpack"
       | [d] => Err "ValueError:unpack"
       | [d; b] | [d; b; _] => Err "ValueError:unpack"
       | [d; b; _; a] =>
           Ok
             {|
               ExponentiatedWeibullDistribution_alpha := a;
               ExponentiatedWeibullDistribution_beta := b;
               ExponentiatedWeibullDistribution_delta := d;
               ExponentiatedWeibullDistribution_f_alpha := ExponentiatedWeibullDistribution_f_alpha s;
               ExponentiatedWeibullDistribution_f_beta := ExponentiatedWeibullDistribution_f_beta s;
               ExponentiatedWeibullDistribution_f_delta := ExponentiatedWeibullDistribution_f_delta s
             |}
       | d :: b :: _ :: a :: _ :: _ => Err "ValueError:unpack"
       end.
Proof. exact (@EW_fit_unfold). Qed.

(* ExponentiatedWeibull: for EVERY subset of fixed parameters, every keyword handed to scipy is a start value or a valid fix-keyword of that family *)
Theorem C11_EW_fit_keywords_valid :
  forall s : ExponentiatedWeibullDistribution,
       forallb (fun kv : string * R => key_ok "exponweib" (fst kv)) (f_kw (EW_call s)) = true.
Proof. exact (@EW_keys_valid). Qed.

(* ExponentiatedWeibull: under the fit contract fitting succeeds, each fixed parameter still has exactly its value, the f_ attributes are unchanged (exact reals; binary64 round-off of exp/log and 1/x is outside the theorem) *)
Theorem C11_EW_fit_fixed :
  forall (fit : fitcall R -> list R) (s : ExponentiatedWeibullDistribution),
       fit_contract fit ->
       exists s' : ExponentiatedWeibullDistribution,
         ExponentiatedWeibullDistribution__fit_mle RN fit s = Ok s' /\
         (forall v : R,
          ExponentiatedWeibullDistribution_f_alpha s = Some v ->
          ExponentiatedWeibullDistribution_alpha s' = v) /\
         (forall v : R,
          ExponentiatedWeibullDistribution_f_beta s = Some v ->
          ExponentiatedWeibullDistribution_beta s' = v) /\
         (forall v : R,
          ExponentiatedWeibullDistribution_f_delta s = Some v ->
          ExponentiatedWeibullDistribution_delta s' = v) /\
         ExponentiatedWeibullDistribution_f_alpha s' = ExponentiatedWeibullDistribution_f_alpha s /\
         ExponentiatedWeibullDistribution_f_beta s' = ExponentiatedWeibullDistribution_f_beta s /\
         ExponentiatedWeibullDistribution_f_delta s' = ExponentiatedWeibullDistribution_f_delta s /\
         c_params (ExponentiatedWeibullDistribution_cdf RN s' None None None) = fit (EW_call s).
Proof. exact (@EW_fit_fixed). Qed.

(* GeneralizedGamma: the generated _fit_mle makes exactly this scipy call and unpacks its result into these attributes *)
Theorem C11_GG_fit_call :
  forall (fit : fitcall R -> list R) (s : GeneralizedGammaDistribution),
       GeneralizedGammaDistribution__fit_mle RN fit s =
       match fit (GG_call s) with
       | [] => Err "ValueError:unpack"
       | [m] => Err "ValueError:unpack"
       | [m; c] | [m; c; _] => Err "ValueError:unpack"
       | [m; c; _; sc] =>
           Ok
             {|
               GeneralizedGammaDistribution_m := m;
               GeneralizedGammaDistribution_c := c;
               GeneralizedGammaDistribution_lambda_ := 1 / sc;
               GeneralizedGammaDistribution_f_m := GeneralizedGammaDistribution_f_m s;
               GeneralizedGammaDistribution_f_c := GeneralizedGammaDistribution_f_c s;
               GeneralizedGammaDistribution_f_lambda_ := GeneralizedGammaDistribution_f_lambda_ s
             |}
       | m :: c :: _ :: sc :: _ :: _ => Err "ValueError:unpack"
       end.
Proof. exact (@GG_fit_unfold). Qed.

(* GeneralizedGamma: for EVERY subset of fixed parameters, every keyword handed to scipy is a start value or a valid fix-keyword of that family *)
Theorem C11_GG_fit_keywords_valid :
  forall s : GeneralizedGammaDistribution,
       forallb (fun kv : string * R => key_ok "gengamma" (fst kv)) (f_kw (GG_call s)) = true.
Proof. exact (@GG_keys_valid). Qed.

(* GeneralizedGamma: under the fit contract fitting succeeds, each fixed parameter still has exactly its value, the f_ attributes are unchanged (exact reals; binary64 round-off of exp/log and 1/x is outside the theorem) *)
Theorem C11_GG_fit_fixed :
  forall (fit : fitcall R -> list R) (s : GeneralizedGammaDistribution),
       fit_contract fit ->
       exists s' : GeneralizedGammaDistribution,
         GeneralizedGammaDistribution__fit_mle RN fit s = Ok s' /\
         (forall v : R,
          GeneralizedGammaDistribution_f_m s = Some v -> GeneralizedGammaDistribution_m s' = v) /\
         (forall v : R,
          GeneralizedGammaDistribution_f_c s = Some v -> GeneralizedGammaDistribution_c s' = v) /\
         (forall v : R,
          v <> 0 ->
          GeneralizedGammaDistribution_f_lambda_ s = Some v -> GeneralizedGammaDistribution_lambda_ s' = v) /\
         GeneralizedGammaDistribution_f_m s' = GeneralizedGammaDistribution_f_m s /\
         GeneralizedGammaDistribution_f_c s' = GeneralizedGammaDistribution_f_c s /\
         GeneralizedGammaDistribution_f_lambda_ s' = GeneralizedGammaDistribution_f_lambda_ s /\
         (nth 3 (fit (GG_call s)) 1 <> 0 ->
          c_params (GeneralizedGammaDistribution_cdf RN s' None None None) = fit (GG_call s)).
Proof. exact (@GG_fit_fixed). Qed.

(* VonMises: the generated _fit_mle makes exactly this scipy call and unpacks its result into these attributes *)
Theorem C11_VM_fit_call :
  forall (fit : fitcall R -> list R) (s : VonMisesDistribution),
       VonMisesDistribution__fit_mle RN fit s =
       match fit (VM_call s) with
       | [] => Err "ValueError:unpack"
       | [k] => Err "ValueError:unpack"
       | [k; m; _] =>
           Ok
             {|
               VonMisesDistribution_kappa := k;
               VonMisesDistribution_mu := VM_fix_mu s m;
               VonMisesDistribution_f_kappa := VonMisesDistribution_f_kappa s;
               VonMisesDistribution_f_mu := VonMisesDistribution_f_mu s
             |}
       | [k; m] | k :: m :: _ :: _ :: _ => Err "ValueError:unpack"
       end.
Proof. exact (@VM_fit_unfold). Qed.

(* VonMises: for EVERY subset of fixed parameters, every keyword handed to scipy is a start value or a valid fix-keyword of that family *)
Theorem C11_VM_fit_keywords_valid :
  forall s : VonMisesDistribution,
       forallb (fun kv : string * R => key_ok "vonmises" (fst kv)) (f_kw (VM_call s)) = true.
Proof. exact (@VM_keys_valid). Qed.

(* VonMises: under the (weaker) vm_contract -- three results, a fixed kappa comes back exactly; scipy WRAPS a fixed location into [-pi,pi], so that clause is not assumed -- fitting succeeds, each fixed parameter still has exactly its value (the fixed mu is re-assigned by the code after the fit), the f_ attributes are unchanged *)
Theorem C11_VM_fit_fixed :
  forall (fit : fitcall R -> list R) (s : VonMisesDistribution),
       vm_contract fit ->
       exists s' : VonMisesDistribution,
         VonMisesDistribution__fit_mle RN fit s = Ok s' /\
         (forall v : R, VonMisesDistribution_f_kappa s = Some v -> VonMisesDistribution_kappa s' = v) /\
         (forall v : R, VonMisesDistribution_f_mu s = Some v -> VonMisesDistribution_mu s' = v) /\
         VonMisesDistribution_f_kappa s' = VonMisesDistribution_f_kappa s /\
         VonMisesDistribution_f_mu s' = VonMisesDistribution_f_mu s /\
         c_params (VonMisesDistribution_cdf s' None None) =
         [nth 0 (fit (VM_call s)) 0; VM_fix_mu s (nth 1 (fit (VM_call s)) 0)].
Proof. exact (@VM_fit_fixed). Qed.

(* conditional distributions: a fixed parameter has the same value for every conditioning value *)
Theorem C11_cond_fixed_independent_of_given :
  forall (T G F : Type) (app : F -> G -> T) (spec : list (string * pspec T F)) 
         (g1 g2 : G) (i : nat) (name : string) (v : T),
       nth_error spec i = Some (name, Fixed F v) ->
       nth_error (get_param_values app spec g1) i = nth_error (get_param_values app spec g2) i.
Proof. exact (@gpv_fixed_independent). Qed.

(* ScipyDistribution subclasses: the fit is skipped (parameters unchanged) when EVERY parameter is fixed ... *)
Theorem C11_SD_fit_skipped_iff_all_fixed :
  forall (T : Type) (dflt : T) (fit : fitcall T -> list T) (fam : string) 
         (names : list string) (stored : list T) (fixed : list (option T)),
       Datatypes.length names = Datatypes.length fixed ->
       (forall o : option T, In o fixed -> o <> None) -> sd_fit dflt fit fam names stored fixed = stored.
Proof. exact (@sd_fit_skipped_iff_all_fixed). Qed.

(* ... and otherwise scipy's fit is called with the shapes as positional start values, loc/scale start values and one f<name> keyword per fixed parameter *)
Theorem C11_SD_fit_runs_when_something_free :
  forall (T : Type) (dflt : T) (fit : fitcall T -> list T) (fam : string) 
         (names : list string) (stored : list T) (fixed : list (option T)),
       Datatypes.length names = Datatypes.length fixed ->
       In None fixed ->
       sd_fit dflt fit fam names stored fixed =
       fit
         {|
           f_family := fam;
           f_pos := firstn (Datatypes.length names - 2) stored;
           f_kw :=
             [("loc", nth (Datatypes.length names - 2) stored dflt);
              ("scale", nth (S (Datatypes.length names - 2)) stored dflt)] ++ sd_fkw names fixed
         |}.
Proof. exact (@sd_fit_runs_when_something_free). Qed.

Example C11_nonvacuous :
  WeibullDistribution_alpha (WeibullDistribution_init 1 1 0 (Some 2) None None) = 2 /\
  f_kw (GG_call (GeneralizedGammaDistribution_init 1 1 1 (Some 2) None (Some 4))) = [("scale", 1 / 4); ("floc", 0); ("f0", 2); ("fscale", 1 / 4)].
Proof. split; reflexivity. Qed.

Print Assumptions C11_W_constructor.
Print Assumptions C11_LN_constructor.
Print Assumptions C11_N_constructor.
Print Assumptions C11_EW_constructor.
Print Assumptions C11_GG_constructor.
Print Assumptions C11_VM_constructor.
Print Assumptions C11_NF_constructor.
Print Assumptions C11_W_fit_call.
Print Assumptions C11_W_fit_keywords_valid.
Print Assumptions C11_W_fit_fixed.
Print Assumptions C11_LN_fit_call.
Print Assumptions C11_LN_fit_keywords_valid.
Print Assumptions C11_LN_fit_fixed.
Print Assumptions C11_N_fit_call.
Print Assumptions C11_N_fit_keywords_valid.
Print Assumptions C11_N_fit_fixed.
Print Assumptions C11_EW_fit_call.
Print Assumptions C11_EW_fit_keywords_valid.
Print Assumptions C11_EW_fit_fixed.
Print Assumptions C11_GG_fit_call.
Print Assumptions C11_GG_fit_keywords_valid.
Print Assumptions C11_GG_fit_fixed.
Print Assumptions C11_VM_fit_call.
Print Assumptions C11_VM_fit_keywords_valid.
Print Assumptions C11_VM_fit_fixed.
Print Assumptions C11_cond_fixed_independent_of_given.
Print Assumptions C11_SD_fit_skipped_iff_all_fixed.
Print Assumptions C11_SD_fit_runs_when_something_free.
