(* Mutual consistency of the documented formulas (C05): for the closed-form families the documented cdf, quantile function and
   density are proved to be inverse to each other / derivative of each other in exact reals, and a generic transfer lemma does
   the same for every family that is a monotone re-parameterisation z = h(x) of a standard distribution function.  The second
   half composes this with the parameter maps GENERATED from virocon/distributions.py. *)
From Coq Require Import Reals List String Bool Lra Lia.
From Coquelicot Require Import Coquelicot.
From V.base Require Import Num.
From V.gen Require Import Distributions.
From V.model Require Import DistHand.
From V.proofs Require Import DistProofs DistDocProofs.
Import ListNotations.
Local Open Scope R_scope.

(* ---------------------------------------------------------------- Rpower facts *)
Lemma Rpower_pos a b : 0 < Rpower a b.
Proof. unfold Rpower. apply exp_pos. Qed.

Lemma Rpower_inv_r t c : 0 < t -> c <> 0 -> Rpower (Rpower t c) (1 / c) = t.
Proof. intros Ht Hc. rewrite Rpower_mult. replace (c * (1 / c)) with 1 by (field; exact Hc). apply Rpower_1. exact Ht. Qed.

Lemma Rpower_inv_l t c : 0 < t -> c <> 0 -> Rpower (Rpower t (1 / c)) c = t.
Proof. intros Ht Hc. rewrite Rpower_mult. replace (1 / c * c) with 1 by (field; exact Hc). apply Rpower_1. exact Ht. Qed.

Lemma Rpower_lt1 p a : 0 < p < 1 -> 0 < a -> Rpower p a < 1.
Proof.
  intros [Hp0 Hp1] Ha. unfold Rpower. rewrite <- exp_0. apply exp_increasing.
  assert (ln p < 0) by (rewrite <- ln_1; apply ln_increasing; lra). nra.
Qed.

Lemma exp_sub_ln a z : 0 < z -> exp ((a - 1) * ln z) = exp (a * ln z) / z.
Proof.
  intros Hz. replace ((a - 1) * ln z) with (a * ln z + - ln z) by ring.
  rewrite exp_plus, exp_Ropp, exp_ln by exact Hz. reflexivity.
Qed.

(* ---------------------------------------------------------------- Weibull (scipy weibull_min: shape c, loc, scale) *)
Section Weibull.
  Variables c loc scale : R.
  Hypothesis Hc : 0 < c.
  Hypothesis Hs : 0 < scale.
  Definition Wz (x : R) : R := (x - loc) / scale.
  Definition Wcdf (x : R) : R := 1 - exp (- Rpower (Wz x) c).
  Definition Wppf (p : R) : R := loc + scale * Rpower (- ln (1 - p)) (1 / c).
  Definition Wpdf (x : R) : R := c / scale * Rpower (Wz x) (c - 1) * exp (- Rpower (Wz x) c).

  Lemma Wz_pos x : loc < x -> 0 < Wz x.
  Proof using Hc Hs. intros H. unfold Wz. apply Rdiv_lt_0_compat; lra. Qed.

  Lemma W_cdf_range x : loc < x -> 0 < Wcdf x < 1.
  Proof using Hc Hs.
    intros H. unfold Wcdf. pose proof (Rpower_pos (Wz x) c) as Hp.
    assert (exp (- Rpower (Wz x) c) < 1) by (rewrite <- exp_0; apply exp_increasing; lra).
    pose proof (exp_pos (- Rpower (Wz x) c)). lra.
  Qed.

  Lemma W_ppf_cdf x : loc < x -> Wppf (Wcdf x) = x.
  Proof using Hc Hs.
    intros H. unfold Wppf, Wcdf.
    replace (1 - (1 - exp (- Rpower (Wz x) c))) with (exp (- Rpower (Wz x) c)) by ring.
    rewrite ln_exp, Ropp_involutive, Rpower_inv_r by (try apply Wz_pos; lra).
    unfold Wz. field. lra.
  Qed.

  Lemma neg_ln_pos p : 0 < p < 1 -> 0 < - ln (1 - p).
  Proof using Hc Hs. intros [H0 H1]. assert (ln (1 - p) < 0) by (rewrite <- ln_1; apply ln_increasing; lra). lra. Qed.

  Lemma W_ppf_support p : 0 < p < 1 -> loc < Wppf p.
  Proof using Hc Hs. intros H. unfold Wppf. pose proof (Rpower_pos (- ln (1 - p)) (1 / c)). nra. Qed.

  Lemma W_cdf_ppf p : 0 < p < 1 -> Wcdf (Wppf p) = p.
  Proof using Hc Hs.
    intros H. unfold Wcdf, Wppf, Wz.
    replace ((loc + scale * Rpower (- ln (1 - p)) (1 / c) - loc) / scale) with (Rpower (- ln (1 - p)) (1 / c)) by (field; lra).
    rewrite Rpower_inv_l by (try apply neg_ln_pos; lra).
    rewrite Ropp_involutive, exp_ln by lra. ring.
  Qed.

  Lemma W_cdf_incr x y : loc < x -> x < y -> Wcdf x < Wcdf y.
  Proof using Hc Hs.
    intros Hx Hxy. unfold Wcdf.
    assert (Rpower (Wz x) c < Rpower (Wz y) c).
    { apply Rlt_Rpower_l; [exact Hc|]. split; [apply Wz_pos; exact Hx|]. unfold Wz. apply Rmult_lt_compat_r; [apply Rinv_0_lt_compat|]; lra. }
    assert (exp (- Rpower (Wz y) c) < exp (- Rpower (Wz x) c)) by (apply exp_increasing; lra). lra.
  Qed.

  Lemma W_pdf_pos x : loc < x -> 0 < Wpdf x.
  Proof using Hc Hs.
    intros H. unfold Wpdf. apply Rmult_lt_0_compat; [apply Rmult_lt_0_compat|apply exp_pos].
    - apply Rdiv_lt_0_compat; lra.
    - apply Rpower_pos.
  Qed.

  Lemma W_pdf_is_derivative x : loc < x -> is_derive Wcdf x (Wpdf x).
  Proof using Hc Hs.
    intros H. pose proof (Wz_pos x H) as Hz. unfold Wcdf, Wpdf, Rpower, Wz in *.
    auto_derive; [exact Hz|].
    set (z := (x - loc) / scale) in *. change ((x + - loc) * / scale) with z.
    rewrite (exp_sub_ln c z Hz). field. split; lra.
  Qed.
End Weibull.

(* ---------------------------------------------------------------- exponentiated Weibull (scipy exponweib: a, c, loc, scale) *)
Section ExpWeibull.
  Variables a c loc scale : R.
  Hypothesis Ha : 0 < a.
  Hypothesis Hc : 0 < c.
  Hypothesis Hs : 0 < scale.
  Definition EWcdf (x : R) : R := Rpower (Wcdf c loc scale x) a.
  Definition EWppf (p : R) : R := Wppf c loc scale (Rpower p (1 / a)).
  Definition EWpdf (x : R) : R := a * Rpower (Wcdf c loc scale x) (a - 1) * Wpdf c loc scale x.

  Lemma EW_cdf_range x : loc < x -> 0 < EWcdf x < 1.
  Proof using Ha Hc Hs. intros H. unfold EWcdf. split; [apply Rpower_pos|]. apply Rpower_lt1; [|exact Ha]. apply W_cdf_range; assumption. Qed.

  Lemma root_range p : 0 < p < 1 -> 0 < Rpower p (1 / a) < 1.
  Proof using Ha Hc Hs. intros H. split; [apply Rpower_pos|]. apply Rpower_lt1; [exact H|]. apply Rdiv_lt_0_compat; lra. Qed.

  Lemma EW_ppf_cdf x : loc < x -> EWppf (EWcdf x) = x.
  Proof using Ha Hc Hs.
    intros H. unfold EWppf, EWcdf. rewrite Rpower_inv_r by (try apply W_cdf_range; try assumption; lra).
    apply W_ppf_cdf; assumption.
  Qed.

  Lemma EW_ppf_support p : 0 < p < 1 -> loc < EWppf p.
  Proof using Ha Hc Hs. intros H. apply W_ppf_support; try assumption. apply root_range; exact H. Qed.

  Lemma EW_cdf_ppf p : 0 < p < 1 -> EWcdf (EWppf p) = p.
  Proof using Ha Hc Hs.
    intros H. unfold EWcdf, EWppf. rewrite W_cdf_ppf by (try assumption; apply root_range; exact H).
    apply Rpower_inv_l; lra.
  Qed.

  Lemma EW_cdf_incr x y : loc < x -> x < y -> EWcdf x < EWcdf y.
  Proof using Ha Hc Hs.
    intros Hx Hxy. unfold EWcdf. apply Rlt_Rpower_l; [exact Ha|]. split.
    - apply W_cdf_range; assumption.
    - apply W_cdf_incr; assumption.
  Qed.

  Lemma EW_pdf_pos x : loc < x -> 0 < EWpdf x.
  Proof using Ha Hc Hs.
    intros H. unfold EWpdf. apply Rmult_lt_0_compat; [apply Rmult_lt_0_compat; [exact Ha|apply Rpower_pos]|].
    apply W_pdf_pos; assumption.
  Qed.

  Lemma EW_pdf_is_derivative x : loc < x -> is_derive EWcdf x (EWpdf x).
  Proof using Ha Hc Hs.
    intros H. pose proof (W_cdf_range c loc scale Hc Hs x H) as [Hw0 _].
    pose proof (W_pdf_is_derivative c loc scale Hc Hs x H) as HW.
    unfold EWcdf, EWpdf.
    assert (Hd : is_derive (fun u => Rpower u a) (Wcdf c loc scale x) (a * Rpower (Wcdf c loc scale x) (a - 1))).
    { unfold Rpower. auto_derive; [exact Hw0|].
      rewrite (exp_sub_ln a _ Hw0). field. lra. }
    pose proof (is_derive_comp (fun u => Rpower u a) (Wcdf c loc scale) x _ _ Hd HW) as Hcmp.
    unfold scal in Hcmp. cbn in Hcmp. unfold mult in Hcmp. cbn in Hcmp.
    replace (a * Rpower (Wcdf c loc scale x) (a - 1) * Wpdf c loc scale x)
      with (Wpdf c loc scale x * (a * Rpower (Wcdf c loc scale x) (a - 1))) by ring.
    exact Hcmp.
  Qed.
End ExpWeibull.

(* ---------------------------------------------------------------- any monotone re-parameterisation of a standard distribution *)
Section Transfer.
  Variables (F0 Q0 : R -> R) (h hinv : R -> R) (S : R -> Prop).   (* S: the support, in x *)
  Hypothesis Q0_F0 : forall z, Q0 (F0 z) = z.
  Hypothesis F0_Q0 : forall p, 0 < p < 1 -> F0 (Q0 p) = p.
  Hypothesis hinv_h : forall x, S x -> hinv (h x) = x.
  Hypothesis h_hinv : forall z, h (hinv z) = z.
  Lemma transfer_ppf_cdf x : S x -> hinv (Q0 (F0 (h x))) = x.
  Proof. intros H. rewrite Q0_F0. apply hinv_h. exact H. Qed.
  Lemma transfer_cdf_ppf p : 0 < p < 1 -> F0 (h (hinv (Q0 p))) = p.
  Proof. intros H. rewrite h_hinv. apply F0_Q0. exact H. Qed.
  Hypothesis F0_incr : forall z1 z2, z1 < z2 -> F0 z1 <= F0 z2.
  Hypothesis h_incr : forall x y, S x -> S y -> x < y -> h x < h y.
  Lemma transfer_monotone x y : S x -> S y -> x < y -> F0 (h x) <= F0 (h y).
  Proof. intros Hx Hy Hxy. apply F0_incr, h_incr; assumption. Qed.
End Transfer.

(* ================================================================ the generated virocon maps composed with the documented formulas *)
Local Open Scope string_scope.
Local Open Scope list_scope.

Section Virocon.
  Variable sts : call R -> R -> R.    (* scipy.stats.<family>.<method>(x, *params) *)
  (* scipy's documented weibull_min / exponweib formulas on the support (oracle contracts, never Axioms) *)
  Hypothesis weibull_min_cdf : forall x c loc scale, loc < x ->
    sts (mkcall "weibull_min" "cdf" [c; loc; scale]) x = Wcdf c loc scale x.
  Hypothesis weibull_min_ppf : forall p c loc scale, 0 < p < 1 ->
    sts (mkcall "weibull_min" "ppf" [c; loc; scale]) p = Wppf c loc scale p.
  Hypothesis weibull_min_pdf : forall x c loc scale, loc < x ->
    sts (mkcall "weibull_min" "pdf" [c; loc; scale]) x = Wpdf c loc scale x.
  Hypothesis exponweib_cdf : forall x a c loc scale, loc < x ->
    sts (mkcall "exponweib" "cdf" [a; c; loc; scale]) x = EWcdf a c loc scale x.
  Hypothesis exponweib_ppf : forall p a c loc scale, 0 < p < 1 ->
    sts (mkcall "exponweib" "ppf" [a; c; loc; scale]) p = EWppf a c loc scale p.
  Hypothesis exponweib_pdf : forall x a c loc scale, loc < x ->
    sts (mkcall "exponweib" "pdf" [a; c; loc; scale]) x = EWpdf a c loc scale x.

  Section W.
    Variable s : @WeibullDistribution R.
    Variables a b g : option R.      (* explicit overrides, any subset *)
    Let al := ov a (WeibullDistribution_alpha s).
    Let be := ov b (WeibullDistribution_beta s).
    Let ga := ov g (WeibullDistribution_gamma s).
    Notation cdf := (eval sts (WeibullDistribution_cdf s a b g)).
    Notation icdf := (eval sts (WeibullDistribution_icdf s a b g)).
    Notation pdf := (eval sts (WeibullDistribution_pdf s a b g)).

    Lemma W_calls :
      WeibullDistribution_cdf s a b g = mkcall "weibull_min" "cdf" [be; ga; al] /\
      WeibullDistribution_icdf s a b g = mkcall "weibull_min" "ppf" [be; ga; al] /\
      WeibullDistribution_pdf s a b g = mkcall "weibull_min" "pdf" [be; ga; al].
    Proof using. subst al be ga. destruct a, b, g; cbn; repeat split; reflexivity. Qed.

    Hypothesis Hal : 0 < al.
    Hypothesis Hbe : 0 < be.

    Lemma W_virocon_documented x : ga < x -> cdf x = 1 - exp (- Rpower ((x - ga) / al) be).
    Proof using weibull_min_cdf. intros H. destruct W_calls as [-> _]. unfold eval. rewrite weibull_min_cdf by exact H. reflexivity. Qed.

    Lemma W_virocon_icdf_cdf x : ga < x -> icdf (cdf x) = x.
    Proof using weibull_min_cdf weibull_min_ppf Hal Hbe.
      intros H. destruct W_calls as [-> [-> _]]. unfold eval. rewrite weibull_min_cdf by exact H.
      rewrite weibull_min_ppf by (apply W_cdf_range; assumption). apply W_ppf_cdf; assumption.
    Qed.

    Lemma W_virocon_cdf_icdf p : 0 < p < 1 -> ga < icdf p /\ cdf (icdf p) = p.
    Proof using weibull_min_cdf weibull_min_ppf Hal Hbe.
      intros H. destruct W_calls as [-> [-> _]]. unfold eval. rewrite weibull_min_ppf by exact H.
      pose proof (W_ppf_support be ga al Hbe Hal p H) as Hsup. split; [exact Hsup|].
      rewrite weibull_min_cdf by exact Hsup. apply W_cdf_ppf; assumption.
    Qed.

    Lemma W_virocon_cdf_range x : ga < x -> 0 < cdf x < 1.
    Proof using weibull_min_cdf Hal Hbe.
      intros H. destruct W_calls as [-> _]. unfold eval. rewrite weibull_min_cdf by exact H. apply W_cdf_range; assumption. Qed.

    Lemma W_virocon_cdf_increasing x y : ga < x -> x < y -> cdf x < cdf y.
    Proof using weibull_min_cdf Hal Hbe.
      intros Hx Hxy. destruct W_calls as [-> _]. unfold eval. rewrite !weibull_min_cdf by lra. apply W_cdf_incr; assumption. Qed.

    Lemma W_virocon_pdf_positive x : ga < x -> 0 < pdf x.
    Proof using weibull_min_pdf Hal Hbe.
      intros H. destruct W_calls as [_ [_ ->]]. unfold eval. rewrite weibull_min_pdf by exact H. apply W_pdf_pos; assumption. Qed.

    Lemma W_virocon_pdf_is_derivative x : ga < x -> is_derive cdf x (pdf x).
    Proof using weibull_min_cdf weibull_min_pdf Hal Hbe.
      intros H. destruct W_calls as [-> [_ ->]]. unfold eval. rewrite weibull_min_pdf by exact H.
      apply (is_derive_ext_loc (Wcdf be ga al)).
      - assert (Hd : 0 < x - ga) by lra. exists (mkposreal _ Hd). intros y Hy. cbn in Hy.
        symmetry. apply weibull_min_cdf. unfold ball in Hy. cbn in Hy. unfold AbsRing_ball, abs, minus, plus, opp in Hy. cbn in Hy.
        apply Rabs_def2 in Hy. lra.
      - apply W_pdf_is_derivative; assumption.
    Qed.
    Lemma W_virocon_pdf_derivative x : ga < x -> derivable_pt_lim cdf x (pdf x).
    Proof using weibull_min_cdf weibull_min_pdf Hal Hbe. intros H. apply is_derive_Reals, W_virocon_pdf_is_derivative; exact H. Qed.
  End W.

  Section EW.
    Variable s : @ExponentiatedWeibullDistribution R.
    Variables a b d : option R.
    Let al := ov a (ExponentiatedWeibullDistribution_alpha s).
    Let be := ov b (ExponentiatedWeibullDistribution_beta s).
    Let de := ov d (ExponentiatedWeibullDistribution_delta s).
    Notation cdf := (eval sts (ExponentiatedWeibullDistribution_cdf RN s a b d)).
    Notation icdf := (eval sts (ExponentiatedWeibullDistribution_icdf RN s a b d)).
    Notation pdf := (fun x => EW_pdf RN sts s x a b d).

    Lemma EW_calls :
      ExponentiatedWeibullDistribution_cdf RN s a b d = mkcall "exponweib" "cdf" [de; be; 0; al] /\
      ExponentiatedWeibullDistribution_icdf RN s a b d = mkcall "exponweib" "ppf" [de; be; 0; al].
    Proof using. subst al be de. destruct a, b, d; cbn; repeat split; reflexivity. Qed.

    Lemma EW_pdf_call x : 0 < x -> EW_pdf RN sts s x a b d = sts (mkcall "exponweib" "pdf" [de; be; 0; al]) x.
    Proof using. intros H. rewrite EW_pdf_inside by exact H. destruct EW_calls as [-> _]. reflexivity. Qed.

    Hypothesis Hal : 0 < al.
    Hypothesis Hbe : 0 < be.
    Hypothesis Hde : 0 < de.

    Lemma EW_virocon_documented x : 0 < x -> cdf x = Rpower (1 - exp (- Rpower (x / al) be)) de.
    Proof using exponweib_cdf.
      intros H. destruct EW_calls as [-> _]. unfold eval. rewrite exponweib_cdf by exact H.
      unfold EWcdf, Wcdf, Wz. rewrite Rminus_0_r. reflexivity. Qed.

    Lemma EW_virocon_icdf_cdf x : 0 < x -> icdf (cdf x) = x.
    Proof using exponweib_cdf exponweib_ppf Hal Hbe Hde.
      intros H. destruct EW_calls as [-> ->]. unfold eval. rewrite exponweib_cdf by exact H.
      rewrite exponweib_ppf by (apply EW_cdf_range; assumption). apply EW_ppf_cdf; assumption.
    Qed.

    Lemma EW_virocon_cdf_icdf p : 0 < p < 1 -> 0 < icdf p /\ cdf (icdf p) = p.
    Proof using exponweib_cdf exponweib_ppf Hal Hbe Hde.
      intros H. destruct EW_calls as [-> ->]. unfold eval. rewrite exponweib_ppf by exact H.
      pose proof (EW_ppf_support de be 0 al Hde Hbe Hal p H) as Hsup. split; [exact Hsup|].
      rewrite exponweib_cdf by exact Hsup. apply EW_cdf_ppf; assumption.
    Qed.

    Lemma EW_virocon_cdf_range x : 0 < x -> 0 < cdf x < 1.
    Proof using exponweib_cdf Hal Hbe Hde.
      intros H. destruct EW_calls as [-> _]. unfold eval. rewrite exponweib_cdf by exact H. apply EW_cdf_range; assumption. Qed.

    Lemma EW_virocon_cdf_increasing x y : 0 < x -> x < y -> cdf x < cdf y.
    Proof using exponweib_cdf Hal Hbe Hde.
      intros Hx Hxy. destruct EW_calls as [-> _]. unfold eval. rewrite !exponweib_cdf by lra. apply EW_cdf_incr; assumption. Qed.

    Lemma EW_virocon_pdf_nonneg x : 0 <= pdf x.
    Proof using exponweib_pdf Hal Hbe Hde.
      cbv beta. destruct (Rlt_dec 0 x) as [H|H].
      - rewrite EW_pdf_call by exact H. rewrite exponweib_pdf by exact H. apply Rlt_le, EW_pdf_pos; assumption.
      - rewrite EW_pdf_zero_outside by lra. lra.
    Qed.

    Lemma EW_virocon_pdf_is_derivative x : 0 < x -> is_derive cdf x (pdf x).
    Proof using exponweib_cdf exponweib_pdf Hal Hbe Hde.
      intros H. cbv beta. rewrite EW_pdf_call by exact H. destruct EW_calls as [-> _]. unfold eval. rewrite exponweib_pdf by exact H.
      apply (is_derive_ext_loc (EWcdf de be 0 al)).
      - exists (mkposreal _ H). intros y Hy. symmetry. apply exponweib_cdf.
        unfold ball in Hy. cbn in Hy. unfold AbsRing_ball, abs, minus, plus, opp in Hy. cbn in Hy.
        apply Rabs_def2 in Hy. lra.
      - apply EW_pdf_is_derivative; assumption.
    Qed.
    Lemma EW_virocon_pdf_derivative x : 0 < x -> derivable_pt_lim cdf x (pdf x).
    Proof using exponweib_cdf exponweib_pdf Hal Hbe Hde. intros H. apply is_derive_Reals, EW_virocon_pdf_is_derivative; exact H. Qed.
  End EW.
End Virocon.

(* ---------------------------------------------------------------- location-scale families through the generated map (Normal) *)
Section LocScale.
  Variables F0 Q0 : R -> R.            (* standard distribution function and its quantile function *)
  Hypothesis Q0_F0 : forall z, Q0 (F0 z) = z.
  Hypothesis F0_Q0 : forall p, 0 < p < 1 -> F0 (Q0 p) = p.
  Hypothesis F0_incr : forall z1 z2, z1 < z2 -> F0 z1 <= F0 z2.
  Variables loc scale : R.
  Hypothesis Hs : 0 < scale.
  Definition LScdf (x : R) : R := F0 ((x - loc) / scale).
  Definition LSppf (p : R) : R := loc + scale * Q0 p.
  Lemma LS_ppf_cdf x : LSppf (LScdf x) = x.
  Proof using Q0_F0 Hs.
    unfold LSppf, LScdf.
    apply (transfer_ppf_cdf F0 Q0 (fun x => (x - loc) / scale) (fun z => loc + scale * z) (fun _ => True)); [exact Q0_F0| |exact I].
    intros y _. field. lra.
  Qed.
  Lemma LS_cdf_ppf p : 0 < p < 1 -> LScdf (LSppf p) = p.
  Proof using F0_Q0 Hs.
    unfold LSppf, LScdf.
    apply (transfer_cdf_ppf F0 Q0 (fun x => (x - loc) / scale) (fun z => loc + scale * z)); [exact F0_Q0|].
    intros z. field. lra.
  Qed.
  Lemma LS_monotone x y : x < y -> LScdf x <= LScdf y.
  Proof using F0_incr Hs.
    intros H. unfold LScdf. apply F0_incr. apply Rmult_lt_compat_r; [apply Rinv_0_lt_compat|]; lra.
  Qed.
End LocScale.

Section ViroconLocScale.
  Variable sts : call R -> R -> R.
  Variables Phi PhiInv : R -> R.                 (* standard normal cdf and quantile function *)
  Hypothesis norm_cdf : forall x loc scale, sts (mkcall "norm" "cdf" [loc; scale]) x = LScdf Phi loc scale x.
  Hypothesis norm_ppf : forall p loc scale, 0 < p < 1 -> sts (mkcall "norm" "ppf" [loc; scale]) p = LSppf PhiInv loc scale p.
  Hypothesis Phi_inv_l : forall z, PhiInv (Phi z) = z.
  Hypothesis Phi_inv_r : forall p, 0 < p < 1 -> Phi (PhiInv p) = p.
  Hypothesis Phi_range : forall z, 0 < Phi z < 1.
  Hypothesis Phi_incr : forall z1 z2, z1 < z2 -> Phi z1 <= Phi z2.

  Section N.
    Variable s : @NormalDistribution R.
    Variables m sg : option R.
    Let mu := ov m (NormalDistribution_mu s).
    Let sigma := ov sg (NormalDistribution_sigma s).
    Notation cdf := (eval sts (NormalDistribution_cdf s m sg)).
    Notation icdf := (eval sts (NormalDistribution_icdf s m sg)).
    Lemma N_calls :
      NormalDistribution_cdf s m sg = mkcall "norm" "cdf" [mu; sigma] /\
      NormalDistribution_icdf s m sg = mkcall "norm" "ppf" [mu; sigma].
    Proof using. subst mu sigma. destruct m, sg; cbn; split; reflexivity. Qed.
    Hypothesis Hsigma : 0 < sigma.
    Lemma N_virocon_documented x : cdf x = Phi ((x - mu) / sigma).
    Proof using norm_cdf. destruct N_calls as [-> _]. unfold eval. rewrite norm_cdf. reflexivity. Qed.
    Lemma N_virocon_icdf_cdf x : icdf (cdf x) = x.
    Proof using norm_cdf norm_ppf Phi_inv_l Phi_range Hsigma.
      destruct N_calls as [-> ->]. unfold eval. rewrite norm_cdf. rewrite norm_ppf by apply Phi_range.
      apply LS_ppf_cdf; assumption.
    Qed.
    Lemma N_virocon_cdf_icdf p : 0 < p < 1 -> cdf (icdf p) = p.
    Proof using norm_cdf norm_ppf Phi_inv_r Hsigma.
      intros H. destruct N_calls as [-> ->]. unfold eval. rewrite norm_ppf by exact H. rewrite norm_cdf.
      apply LS_cdf_ppf; assumption.
    Qed.
    Lemma N_virocon_cdf_monotone x y : x < y -> cdf x <= cdf y.
    Proof using norm_cdf Phi_incr Hsigma.
      intros H. destruct N_calls as [-> _]. unfold eval. rewrite !norm_cdf. apply LS_monotone; assumption.
    Qed.
  End N.
End ViroconLocScale.

(* non-vacuity: the hypotheses on scipy.stats are satisfiable (take the documented formulas themselves) and admissible parameters exist *)
Definition sts_doc (c : call R) (x : R) : R :=
  match c_params c with
  | [c0; loc; scale] => if String.eqb (c_method c) "cdf" then Wcdf c0 loc scale x else if String.eqb (c_method c) "ppf" then Wppf c0 loc scale x else Wpdf c0 loc scale x
  | _ => 0
  end.
Example W_consistency_nonvacuous :
  let s := WeibullDistribution_init 2 3 1 None None None in
  eval sts_doc (WeibullDistribution_icdf s None None None) (eval sts_doc (WeibullDistribution_cdf s None None None) 4) = 4.
Proof.
  intros s. apply (W_virocon_icdf_cdf sts_doc); try (intros; reflexivity); cbn; lra.
Qed.

(* ---------------------------------------------------------------- log-normal, generalized gamma, von Mises through the generated maps *)
Section ViroconMore.
  Variable sts : call R -> R -> R.
  Variables Phi PhiInv : R -> R.                 (* standard normal cdf and quantile function *)
  Variables F0gg Q0gg : R -> R -> R -> R.        (* standard generalized gamma cdf / quantile function, per shapes (a, c) *)
  Variables Fvm Qvm : R -> R -> R.               (* von Mises cdf / quantile function centred at 0, per kappa *)
  Hypothesis lognorm_cdf : forall x s loc scale, loc < x ->
    sts (mkcall "lognorm" "cdf" [s; loc; scale]) x = Phi (ln ((x - loc) / scale) / s).
  Hypothesis lognorm_ppf : forall p s loc scale, 0 < p < 1 ->
    sts (mkcall "lognorm" "ppf" [s; loc; scale]) p = loc + scale * exp (s * PhiInv p).
  Hypothesis Phi_inv_l : forall z, PhiInv (Phi z) = z.
  Hypothesis Phi_inv_r : forall p, 0 < p < 1 -> Phi (PhiInv p) = p.
  Hypothesis Phi_range : forall z, 0 < Phi z < 1.
  Hypothesis gengamma_cdf : forall x a c loc scale,
    sts (mkcall "gengamma" "cdf" [a; c; loc; scale]) x = LScdf (F0gg a c) loc scale x.
  Hypothesis gengamma_ppf : forall p a c loc scale, 0 < p < 1 ->
    sts (mkcall "gengamma" "ppf" [a; c; loc; scale]) p = LSppf (Q0gg a c) loc scale p.
  Hypothesis gg_inv_l : forall a c z, 0 < z -> Q0gg a c (F0gg a c z) = z.
  Hypothesis gg_inv_r : forall a c p, 0 < p < 1 -> 0 < Q0gg a c p /\ F0gg a c (Q0gg a c p) = p.
  Hypothesis gg_range : forall a c z, 0 < z -> 0 < F0gg a c z < 1.
  Hypothesis vonmises_cdf : forall x kappa loc, sts (mkcall "vonmises" "cdf" [kappa; loc]) x = Fvm kappa (x - loc).
  Hypothesis vonmises_ppf : forall p kappa loc, 0 < p < 1 -> sts (mkcall "vonmises" "ppf" [kappa; loc]) p = loc + Qvm kappa p.
  Hypothesis vm_inv_l : forall k z, - PI < z < PI -> Qvm k (Fvm k z) = z.
  Hypothesis vm_inv_r : forall k p, 0 < p < 1 -> - PI < Qvm k p < PI /\ Fvm k (Qvm k p) = p.
  Hypothesis vm_range : forall k z, - PI < z < PI -> 0 < Fvm k z < 1.

  Section LN.
    Variable s : @LogNormalDistribution R.
    Variables m sg : option R.
    Let mu := ov m (LogNormalDistribution_mu s).
    Let sigma := ov sg (LogNormalDistribution_sigma s).
    Notation cdf := (eval sts (LogNormalDistribution_cdf RN s m sg)).
    Notation icdf := (eval sts (LogNormalDistribution_icdf RN s m sg)).
    Lemma LN_calls :
      LogNormalDistribution_cdf RN s m sg = mkcall "lognorm" "cdf" [sigma; 0; exp mu] /\
      LogNormalDistribution_icdf RN s m sg = mkcall "lognorm" "ppf" [sigma; 0; exp mu].
    Proof using. subst mu sigma. destruct m, sg; cbn; split; reflexivity. Qed.
    Hypothesis Hsigma : 0 < sigma.
    Lemma ln_arg x : 0 < x -> ln ((x - 0) / exp mu) = ln x - mu.
    Proof using. intros H. rewrite Rminus_0_r. unfold Rdiv. rewrite ln_mult; [|exact H|apply Rinv_0_lt_compat, exp_pos].
      rewrite ln_Rinv by apply exp_pos. rewrite ln_exp. ring. Qed.
    Lemma LN_virocon_documented x : 0 < x -> cdf x = Phi ((ln x - mu) / sigma).
    Proof using lognorm_cdf. intros H. destruct LN_calls as [-> _]. unfold eval. rewrite lognorm_cdf by exact H. rewrite ln_arg by exact H. reflexivity. Qed.
    Lemma LN_virocon_icdf_cdf x : 0 < x -> icdf (cdf x) = x.
    Proof using lognorm_cdf lognorm_ppf Phi_inv_l Phi_range Hsigma.
      intros H. destruct LN_calls as [-> ->]. unfold eval. rewrite lognorm_cdf by exact H. rewrite lognorm_ppf by apply Phi_range.
      rewrite Phi_inv_l, ln_arg by exact H.
      replace (sigma * ((ln x - mu) / sigma)) with (ln x - mu) by (field; lra).
      unfold Rminus. rewrite exp_plus, exp_ln, exp_Ropp by exact H. field. apply Rgt_not_eq, exp_pos.
    Qed.
    Lemma LN_virocon_cdf_icdf p : 0 < p < 1 -> 0 < icdf p /\ cdf (icdf p) = p.
    Proof using lognorm_cdf lognorm_ppf Phi_inv_r Hsigma.
      intros H. destruct LN_calls as [-> ->]. unfold eval. rewrite lognorm_ppf by exact H.
      assert (Hpos : 0 < 0 + exp mu * exp (sigma * PhiInv p)).
      { rewrite Rplus_0_l. apply Rmult_lt_0_compat; apply exp_pos. }
      split; [exact Hpos|]. rewrite lognorm_cdf by exact Hpos.
      replace ((0 + exp mu * exp (sigma * PhiInv p) - 0) / exp mu) with (exp (sigma * PhiInv p)) by (field; apply Rgt_not_eq, exp_pos).
      rewrite ln_exp. replace (sigma * PhiInv p / sigma) with (PhiInv p) by (field; lra). apply Phi_inv_r. exact H.
    Qed.
  End LN.

  Section GG.
    Variable s : @GeneralizedGammaDistribution R.
    Variables om oc ol : option R.
    Let m := ov om (GeneralizedGammaDistribution_m s).
    Let c := ov oc (GeneralizedGammaDistribution_c s).
    Let la := ov ol (GeneralizedGammaDistribution_lambda_ s).
    Notation cdf := (eval sts (GeneralizedGammaDistribution_cdf RN s om oc ol)).
    Notation icdf := (eval sts (GeneralizedGammaDistribution_icdf RN s om oc ol)).
    Lemma GG_calls :
      GeneralizedGammaDistribution_cdf RN s om oc ol = mkcall "gengamma" "cdf" [m; c; 0; 1 / la] /\
      GeneralizedGammaDistribution_icdf RN s om oc ol = mkcall "gengamma" "ppf" [m; c; 0; 1 / la].
    Proof using. subst m c la. destruct om, oc, ol; cbn; split; reflexivity. Qed.
    Hypothesis Hla : 0 < la.
    Lemma GG_scale_pos : 0 < 1 / la. Proof using Hla. apply Rdiv_lt_0_compat; lra. Qed.
    Lemma GG_virocon_documented x : cdf x = F0gg m c (la * x).
    Proof using gengamma_cdf Hla. destruct GG_calls as [-> _]. unfold eval. rewrite gengamma_cdf. unfold LScdf. f_equal. field. lra. Qed.
    Lemma GG_virocon_icdf_cdf x : 0 < x -> icdf (cdf x) = x.
    Proof using gengamma_cdf gengamma_ppf gg_inv_l gg_range Hla.
      intros H. destruct GG_calls as [-> ->]. unfold eval. rewrite gengamma_cdf.
      assert (Hz : 0 < (x - 0) / (1 / la)). { replace ((x - 0) / (1 / la)) with (la * x) by (field; lra). nra. }
      rewrite gengamma_ppf by (unfold LScdf; apply gg_range; exact Hz).
      unfold LSppf, LScdf. rewrite gg_inv_l by exact Hz. field. lra.
    Qed.
    Lemma GG_virocon_cdf_icdf p : 0 < p < 1 -> 0 < icdf p /\ cdf (icdf p) = p.
    Proof using gengamma_cdf gengamma_ppf gg_inv_r Hla.
      intros H. destruct GG_calls as [-> ->]. unfold eval. rewrite gengamma_ppf by exact H. destruct (gg_inv_r m c p H) as [Hq Hr].
      pose proof GG_scale_pos as Hs. unfold LSppf. split; [nra|].
      rewrite gengamma_cdf. unfold LScdf.
      replace ((0 + 1 / la * Q0gg m c p - 0) / (1 / la)) with (Q0gg m c p) by (field; lra). exact Hr.
    Qed.
  End GG.

  Section VM.
    Variable s : @VonMisesDistribution R.
    Variables ok om : option R.
    Let kappa := ov ok (VonMisesDistribution_kappa s).
    Let mu := ov om (VonMisesDistribution_mu s).
    Notation cdf := (eval sts (VonMisesDistribution_cdf s ok om)).
    Notation icdf := (eval sts (VonMisesDistribution_icdf s ok om)).
    Lemma VM_calls :
      VonMisesDistribution_cdf s ok om = mkcall "vonmises" "cdf" [kappa; mu] /\
      VonMisesDistribution_icdf s ok om = mkcall "vonmises" "ppf" [kappa; mu].
    Proof using. subst kappa mu. destruct ok, om; cbn; split; reflexivity. Qed.
    Lemma VM_virocon_icdf_cdf x : mu - PI < x < mu + PI -> icdf (cdf x) = x.
    Proof using vonmises_cdf vonmises_ppf vm_inv_l vm_range.
      intros H. destruct VM_calls as [-> ->]. unfold eval. rewrite vonmises_cdf.
      assert (Hz : - PI < x - mu < PI) by lra.
      rewrite vonmises_ppf by (apply vm_range; exact Hz). rewrite vm_inv_l by exact Hz. ring.
    Qed.
    Lemma VM_virocon_cdf_icdf p : 0 < p < 1 -> mu - PI < icdf p < mu + PI /\ cdf (icdf p) = p.
    Proof using vonmises_cdf vonmises_ppf vm_inv_r.
      intros H. destruct VM_calls as [-> ->]. unfold eval. rewrite vonmises_ppf by exact H. destruct (vm_inv_r kappa p H) as [Hq Hr].
      split; [lra|]. rewrite vonmises_cdf. replace (mu + Qvm kappa p - mu) with (Qvm kappa p) by ring. exact Hr.
    Qed.
  End VM.
End ViroconMore.
