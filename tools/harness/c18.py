"""C18 -- ill-formed model, fit and contour specifications are rejected, not computed (DESIGN.md section 6, C18).

proof gate:      props/C18.v  (validate = Ok <-> WellFormed for model descriptions, fit input, slicers, evaluation
                 points, HDC grids, dimension / type guards and whole sessions; any length)
correspondence:  model/Validate.v `observe` evaluated by vm_compute vs the REAL constructors and entry points
                 (slicer constructors, GlobalHierarchicalModel, fit, pdf / cdf, contours).  A case is a *session*
                 (spec, JSON-able): slicers -> model -> fit -> evaluation -> contour.  Compared: raised or not, the phase
                 (construction vs later), the exception class, the raising function (innermost virocon frame), which
                 check fired (message) and the dimension it names.
search:          the property oracle: a session into which the harness injected >= 1 malformation must raise, and in
                 the phase in which the malformed input is supplied (for slicer reference keywords / too few intervals /
                 fit methods: the fit call that uses them); a session without injected malformation must not raise.
"""
import itertools
import json
import traceback
import warnings

import numpy as np

import vlib

PHASES = ["PhSlicers", "PhModel", "PhFit", "PhEval", "PhContour"]
FAMILIES = ["Weibull", "LogNormal", "Normal", "LogNormalNormFit", "ExpWeibull", "GenGamma", "VonMises", "ScipyGamma"]
PARAMS = {"Weibull": ["alpha", "beta", "gamma"], "LogNormal": ["mu", "sigma"], "Normal": ["mu", "sigma"],
          "LogNormalNormFit": ["mu_norm", "sigma_norm"], "ExpWeibull": ["alpha", "beta", "delta"],
          "GenGamma": ["m", "c", "lambda_"], "VonMises": ["kappa", "mu"], "ScipyGamma": ["a", "loc", "scale"]}
CLASSNAME = {"Weibull": "WeibullDistribution", "LogNormal": "LogNormalDistribution", "Normal": "NormalDistribution",
             "LogNormalNormFit": "LogNormalNormFitDistribution", "ExpWeibull": "ExponentiatedWeibullDistribution",
             "GenGamma": "GeneralizedGammaDistribution", "VonMises": "VonMisesDistribution", "ScipyGamma": "_GammaSD"}
FIXVAL = {"gamma": 0.1, "loc": 0.05, "mu": 0.3}
N_ROWS = 600
CUR = {"seed": 0}


# ------------------------------------------------------------------ real objects
class _V:
    """lazily imported virocon names (PYTHONPATH decides which tree)"""
    _c = None

    @classmethod
    def get(cls):
        if cls._c is None:
            import virocon
            import virocon.distributions as D
            import virocon.contours as C
            import virocon.jointmodels as J
            import virocon.intervals as I
            import virocon.dependencies as Dep

            class _GammaSD(D.ScipyDistribution):
                scipy_dist_name = "gamma"

            cls._c = {"D": D, "C": C, "J": J, "I": I, "Dep": Dep, "_GammaSD": _GammaSD}
        return cls._c


def _dep(V):
    def lin(x, a=0.5, b=0.1):
        return a + b * np.abs(x)      # positive for every conditioning value (Normal / von Mises variables can be negative)
    return V["Dep"].DependenceFunction(lin, bounds=[(None, None), (None, None)])


def make_dist(V, d, nan_first=False):
    fam = d["family"]
    cls = V["_GammaSD"] if fam == "ScipyGamma" else getattr(V["D"], CLASSNAME[fam])
    kw = {"f_" + p: FIXVAL.get(p, 1.5) for p in d["fixed"]}
    if d.get("fixzero") in d["fixed"]:
        kw["f_" + d["fixzero"]] = 0    # boundary: a parameter legitimately fixed at exactly 0
    if fam == "LogNormalNormFit" and "mu_norm" not in d["fixed"]:
        kw["mu_norm"] = 1.0          # the class default (0) is not a valid parameter value
    if nan_first:
        kw[PARAMS[fam][0]] = float("nan")
    return cls(**kw)


def dec_value(v):
    """spec encoding of a python value: ["int",k] ["none"] ["num",x] ["str",s] ["callable"] ["array"]"""
    k = v[0]
    if k == "int":
        return int(v[1])
    if k == "none":
        return None
    if k == "num":
        return float(v[1])
    if k == "str":
        return str(v[1])
    if k == "callable":
        return np.median
    if k == "array":
        return np.ones(N_ROWS)
    if k == "array_nonfinite":
        a = np.ones(N_ROWS)
        a[N_ROWS // 2] = [np.nan, np.inf, -np.inf][int(v[1]) % 3]
        return a
    raise ValueError(v)


def make_slicer(V, s, valid_for_count=False):
    I = V["I"]
    kw = dict(s.get("kwargs", {}))
    kw["min_n_points"] = s["min_n_points"]
    kw["min_n_intervals"] = s["min_n_intervals"]
    ref = dec_value(s["ref"])
    if valid_for_count:
        kw = {"min_n_points": s["min_n_points"], "min_n_intervals": 0}
        ref = np.median if s["kind"] == "points" else "center"
    if s["kind"] == "width":
        return I.WidthOfIntervalSlicer(s["param"], reference=ref, **kw)
    if s["kind"] == "number":
        return I.NumberOfIntervalsSlicer(s["param"], reference=ref, **kw)
    return I.PointsPerIntervalSlicer(s["param"], reference=ref, **kw)


_DATA = {}


def data_matrix(seed):
    """fixed data set (N_ROWS x 5), positive, moderately dependent columns"""
    if seed not in _DATA:
        rng = np.random.default_rng([seed, 18, 7])
        base = rng.lognormal(0.0, 0.35, size=(N_ROWS, 5))
        for j in range(1, 5):
            base[:, j] = 0.6 * base[:, j] + 0.4 * base[:, j - 1]
        _DATA[seed] = np.clip(base, 0.25, 3.0)
    return _DATA[seed]


_SURV = {}


def surviving(V, s, col, seed):
    """oracle table: number of intervals the (well-formed variant of the) slicer keeps for data column col"""
    key = (json.dumps(s, sort_keys=True) if s else "default", col, seed, vlib.REPO)
    if key not in _SURV:
        sl = make_slicer(V, s, valid_for_count=True) if s else V["I"].NumberOfIntervalsSlicer(10, min_n_intervals=0)
        try:
            _SURV[key] = len(sl.slice_(data_matrix(seed)[:, col])[0])
        except IndexError:
            _SURV[key] = 0
    return _SURV[key]


def _frames(e):
    out = []
    tb = e.__traceback__
    while tb is not None:
        fr = tb.tb_frame
        fn = fr.f_code.co_filename.replace("\\", "/")
        if "/virocon/" in fn:
            out.append((fn.split("/")[-1], fr.f_code.co_qualname, fr))
        tb = tb.tb_next
    return out


def classify(e, loop_pos=None):
    """real exception -> (class, site qualname, tag, pos)"""
    fr = _frames(e)
    cls = type(e).__name__
    if not fr:
        return cls, "?", "?", 0
    fname, qn, frame = fr[-1]
    msg = str(e)
    tag = "?"
    pos = 0

    def local_i(qualname):
        for _, q, f in reversed(fr):
            if q == qualname and "i" in f.f_locals:
                return int(f.f_locals["i"])
        return 0
    if qn == "GlobalHierarchicalModel._check_dist_descriptions":
        tag = ("MissingDistribution" if msg.startswith("Mandatory key 'distribution'") else
               "MissingParameters" if msg.startswith("For conditional distributions") else
               "UnknownKeys" if msg.startswith("Unknown key(s)") else "BadHierarchy")
        pos = local_i(qn)
    elif qn == "ConditionalDistribution.__init__":
        tag = ("UnknownParams" if msg.startswith("Unknown param(s)") else
               "NotDefined" if "was not defined" in msg else
               "BothGiven" if "both where given" in msg else "?")
        for _, q, f in fr:
            if q == "GlobalHierarchicalModel.__init__":
                pos = len(f.f_locals["self"].distributions)
    elif qn == "GlobalHierarchicalModel.__init__":
        tag = "FirstConditional" if cls == "RuntimeError" else "EmptyModel" if cls == "IndexError" else "?"
    elif qn == "GlobalHierarchicalModel._check_and_fill_fit_desc":
        if msg.startswith("fit_description must have one entry"):
            tag = "FitLength"
        elif msg.startswith("Mandatory key 'method'"):
            tag, pos = "MissingMethod", local_i(qn)
    elif qn == "GlobalHierarchicalModel.fit":
        tag = "DataDimension" if msg.startswith("The dimension of data") else "?"
    elif qn == "Distribution.fit":
        tag = ("UnknownMethod" if msg.startswith("Unknown fit method") else
               "MethodNotString" if cls == "AttributeError" else "?")
        pos = local_i("GlobalHierarchicalModel.fit")
    elif qn.endswith("._fit_lsq"):
        if qn.startswith("ExponentiatedWeibullDistribution"):
            tag = "UnknownWeights" if msg.startswith("Unsupported value for weights") else \
                  "WeightsNonFinite" if "infs or NaNs" in msg else \
                  "LsqFixedNotImplemented" if cls == "NotImplementedError" else "?"
        else:
            tag = "LsqNotImplemented" if cls == "NotImplementedError" else "?"
        pos = local_i("GlobalHierarchicalModel.fit")
    elif qn == "IntervalSlicer.__init__":
        tag, pos = ("UnknownKwarg" if "unexpected keyword argument" in msg else "?"), loop_pos or 0
    elif qn == "PointsPerIntervalSlicer.__init__":
        tag, pos = ("ReferenceNotCallable" if msg.startswith("Wrong type for reference") else "?"), loop_pos or 0
    elif qn in ("WidthOfIntervalSlicer._slice", "NumberOfIntervalsSlicer._slice"):
        tag = ("UnknownReference" if msg.startswith("Unknown value for 'reference'") else
               "ReferenceType" if msg.startswith("Wrong type for reference") else "?")
        pos = local_i("GlobalHierarchicalModel.fit")
    elif qn == "PointsPerIntervalSlicer._slice":
        tag = "NoIntervals" if cls == "IndexError" else "?"
        pos = local_i("GlobalHierarchicalModel.fit")
    elif qn == "IntervalSlicer.slice_":
        tag = "TooFewIntervals" if msg.startswith("Slicing resulting in too few intervals") else "?"
        pos = local_i("GlobalHierarchicalModel.fit")
    elif qn == "HighestDensityContour._check_grid":
        if msg.startswith("limits has to be of length"):
            tag = "LimitsLength"
        elif msg.startswith("deltas has do be either scalar"):
            tag = "DeltasLength"
        elif cls == "TypeError":
            tag, pos = "LimitSubscript", local_i(qn)
        elif cls == "IndexError":
            tag, pos = "LimitIndex", local_i(qn)
    elif qn == "HighestDensityContour._compute":
        if msg.startswith("tuples in limits have to be of length 2"):
            tag, pos = "LimitTuple", local_i(qn)
        elif msg.startswith("Encountered nan"):
            tag = "PdfNan"
    elif qn == "GlobalHierarchicalModel.pdf":
        tag = "NonFinitePdf" if "infs or NaNs" in msg else "?"
    elif qn == "MultivariateModel.cdf":
        tag = "NonFiniteCdf" if "infs or NaNs" in msg else "?"
    elif qn == "TransformedModel.cdf":
        tag = "NonFiniteTransformedCdf" if "infs or NaNs" in msg else "?"
    elif qn == "TransformedModel.empirical_cdf":
        tag = "NonFiniteEmpiricalCdf" if "infs or NaNs" in msg else "?"
    elif qn == "HighestDensityContour.cumsum_biggest_until":
        tag = "CumsumNan" if msg.startswith("array contains nan") else "?"
    elif qn in ("DirectSamplingContour._compute", "AndContour._compute", "OrContour._compute"):
        k = {"DirectSamplingContour": "CDirectSampling", "AndContour": "CAnd", "OrContour": "COr"}[qn.split(".")[0]]
        tag = ("Not2D", k) if "only" in msg and "two dimensions" in msg else "?"
    elif qn == "IFORMContour.__init__":
        tag = "ModelType" if msg.startswith("Type of model was") else "?"
    return cls, qn, tag, pos


class _ReachedIntegration(BaseException):
    pass


class _NoIntegration:
    """stands in for scipy.integrate inside virocon.jointmodels while a malformed cdf call is made"""
    @staticmethod
    def nquad(*a, **k):
        raise _ReachedIntegration()


def _obs(e, phase, loop_pos=None):
    return dict(zip(("exc", "site", "tag", "pos"), classify(e, loop_pos=loop_pos)), phase=phase, msg=str(e)[:160])


def _ident(x):
    return x


def _jac1(x):
    return 1.0


def points_entry(p):
    return p.get("entry") or ("cdf" if p.get("cdf") else "pdf")


def fit_data(f, data, n):
    """the data argument of fit: (N, data_cols) array, or one of the ill-shaped variants"""
    shape = f.get("data_shape")
    if shape == "1d_N":
        d = data[:, 0].copy()
    elif shape == "1d_n":
        d = data[0, :n].copy()
    elif shape == "3d":
        d = np.stack([data[:, :n], 1.1 * data[:, :n], 0.9 * data[:, :n]], axis=1)      # (N, 3, n)
    else:
        d = data[:, : f["data_cols"]]
    return d.tolist() if f.get("as_list") else d


def run_real(spec, seed=0):
    """run the session on the real code; returns None (every step returned) or an observation dict"""
    V = _V.get()
    descs = spec["descs"]
    n = len(descs)
    data = data_matrix(seed)
    np.random.seed((seed * 7919 + 13) % 2 ** 32)     # contours that draw their own sample use numpy's global generator
    with warnings.catch_warnings():
        warnings.simplefilter("ignore")
        if spec.get("predefined") is not None:
            dd = predefined_dd(V, spec["predefined"])
        else:
            # distributions (never part of the comparison: well-formed constructor calls)
            nan_at = (spec.get("contour") or {}).get("nan_at")
            dists = [make_dist(V, d, nan_first=(nan_at == i)) if d["has_distribution"] else None for i, d in enumerate(descs)]
            # phase 0: slicers
            slicers = [None] * n
            for i, d in enumerate(descs):
                if d["intervals"] is not None:
                    try:
                        slicers[i] = make_slicer(V, d["intervals"])
                    except Exception as e:  # noqa
                        return _obs(e, "PhSlicers", loop_pos=i)
            # phase 1: model
            dd = []
            for i, d in enumerate(descs):
                x = {}
                if d["has_distribution"]:
                    x["distribution"] = dists[i]
                if d["cond"] is not None:
                    x["conditional_on"] = dec_value(d["cond"])
                if d["has_parameters"]:
                    x["parameters"] = {p: _dep(V) for p in d["dependent"]}
                for k in d["other_keys"]:
                    x[k] = 1
                if d["intervals"] is not None:
                    x["intervals"] = slicers[i]
                dd.append(x)
            if spec.get("descs_as_tuple"):
                dd = tuple(dd)
        try:
            model = V["J"].GlobalHierarchicalModel(dd)
        except Exception as e:  # noqa
            return _obs(e, "PhModel")
        # the same model behind a TransformedModel (identity transformation): fit / pdf / contours delegate
        front = V["J"].TransformedModel(model, _ident, _ident, _jac1) if spec.get("via") == "transformed" else model
        # phase 2: fit
        if spec.get("fit") is not None:
            f = spec["fit"]
            fds = None
            if f["descs"] is not None:
                fds = []
                for fd in f["descs"]:
                    if fd is None:
                        fds.append(None)
                    elif "_raw_str" in fd:
                        fds.append(fd["_raw_str"])
                    else:
                        x = {}
                        if "method" in fd:
                            x["method"] = dec_value(fd["method"])
                        if "weights" in fd:
                            x["weights"] = dec_value(fd["weights"])
                        fds.append(x)
            try:
                front.fit(fit_data(f, data, n), fds)
            except Exception as e:  # noqa
                return _obs(e, "PhFit")
        # phase 3: evaluation
        if spec.get("points") is not None:
            p = spec["points"]
            entry = points_entry(p)
            pts = np.array(p["pts"], dtype=float)
            arg = p["pts"] if p.get("as_list") else pts
            tm = front if spec.get("via") == "transformed" else V["J"].TransformedModel(model, _ident, _ident, _jac1)
            # a rejected call must raise before any integration: the integrator that cdf would call is replaced (from
            # outside) by a stub unless the call is a cheap well-formed one; reaching it means that validation passed
            # and the call went on to compute a result
            J = V["J"]
            real_integrate = J.integrate
            if entry in ("cdf", "tm_cdf") and not (np.isfinite(pts).all() and n == 1):
                J.integrate = _NoIntegration()
            try:
                if entry == "pdf":
                    model.pdf(arg)
                elif entry == "cdf":
                    model.cdf(arg)
                elif entry == "tm_pdf":
                    tm.pdf(pts)
                elif entry == "tm_cdf":
                    tm.cdf(arg)
                else:
                    tm.empirical_cdf(arg, sample=data[:50, :n])
            except _ReachedIntegration:
                pass
            except Exception as e:  # noqa
                return _obs(e, "PhEval")
            finally:
                J.integrate = real_integrate
        # phase 4: contour
        if spec.get("contour") is not None:
            c = spec["contour"]
            C = V["C"]
            try:
                if c["kind"] == "hdc":
                    lim = c["limits"]
                    if lim is not None:
                        how = c.get("limits_as", "tuples")
                        lim = [tuple(x) if (isinstance(x, list) and how != "lists") else x for x in lim]
                        if how == "ndarray" and all(isinstance(x, tuple) and len(x) == 2 for x in lim):
                            lim = np.array(lim, dtype=float)
                    dl = c["deltas"]
                    if isinstance(dl, list) and c.get("deltas_as") == "ndarray":
                        dl = np.array(dl, dtype=float)
                    elif isinstance(dl, list) and c.get("deltas_as") == "tuple":
                        dl = tuple(dl)
                    C.HighestDensityContour(model, c.get("alpha", 0.3), lim, dl)
                elif c["kind"] == "iform":
                    mdl = {"ghm": model, "transformed": front, "str": "model", "int": 3, "none": None}[c["model"]]
                    C.IFORMContour(mdl, 0.1, n_points=8)
                else:
                    cls = {"direct": C.DirectSamplingContour, "and": C.AndContour, "or": C.OrContour}[c["kind"]]
                    smp = None
                    if c.get("sample") == "two_columns":
                        # caller-supplied sample with exactly two columns
                        smp = model.draw_sample(2000, random_state=seed) if n == 2 else data[:, :2].copy()
                    cls(front, 0.1, sample=smp)
            except Exception as e:  # noqa
                return _obs(e, "PhContour")
    return None


# ------------------------------------------------------------------ predefined models as carriers
GETTERS = ["get_DNVGL_Hs_Tz", "get_DNVGL_Hs_U", "get_OMAE2020_Hs_Tz", "get_OMAE2020_V_Hs", "get_Windmeier_EW_Hs_S",
           "get_Nonzero_EW_Hs_S"]
KNOWN_KEYS = ("distribution", "intervals", "conditional_on", "parameters")


def predefined_dd(V, pd):
    """the REAL dist_descriptions returned by a predefined getter, mutated at the dictionary level"""
    import virocon.predefined as P
    dd = [dict(x) for x in getattr(P, pd["getter"])()[0]]
    for op in pd["ops"]:
        k, i = op[0], op[1]
        d = dd[i]
        if k == "del":
            d.pop(op[2], None)
        elif k == "add_key":
            d[op[2]] = 1
        elif k == "add_param":
            d["parameters"] = dict(d["parameters"], **{op[2]: _dep(V)})
        elif k == "drop_param":
            d["parameters"] = {q: v for q, v in d["parameters"].items() if q != op[2]}
        elif k == "fix":
            d["distribution"] = type(d["distribution"])(**{"f_" + op[2]: op[3]})
        elif k == "cond":
            d["conditional_on"] = dec_value(op[2])
            if "parameters" not in d:
                dist = d["distribution"]
                d["parameters"] = {q: _dep(V) for q in dist.parameters if getattr(dist, "f_" + q) is None}
        else:
            raise ValueError(op)
    return dd


def abstract_dd(V, dd):
    """real dist_descriptions -> the description records of the model (same format as spec['descs'])"""
    I = V["I"]
    rev = {v: k for k, v in CLASSNAME.items()}
    out = []
    for d in dd:
        x = {"family": "Weibull", "has_distribution": "distribution" in d, "fixed": [], "cond": None,
             "has_parameters": "parameters" in d, "dependent": list(d.get("parameters", {})),
             "other_keys": sorted(k for k in d if k not in KNOWN_KEYS), "intervals": None}
        if "distribution" in d:
            dist = d["distribution"]
            x["family"] = rev[type(dist).__name__]
            x["fixed"] = [q for q in dist.parameters if getattr(dist, "f_" + q) is not None]
        if "conditional_on" in d:
            c = d["conditional_on"]
            x["cond"] = (["none"] if c is None else ["int", int(c)] if isinstance(c, (int, np.integer)) and not isinstance(c, bool)
                         else ["num", c] if isinstance(c, float) else ["str", str(c)])
        if "intervals" in d:
            sl = d["intervals"]
            kind = ("width" if isinstance(sl, I.WidthOfIntervalSlicer) else
                    "number" if isinstance(sl, I.NumberOfIntervalsSlicer) else "points")
            r = sl.reference
            ref = ["str", r] if isinstance(r, str) else ["callable"] if callable(r) else ["none"]
            x["intervals"] = {"kind": kind, "param": {"width": getattr(sl, "width", 0), "number": getattr(sl, "n_intervals", 0),
                                                        "points": getattr(sl, "n_points", 0)}[kind],
                              "kwargs": {}, "ref": ref, "min_n_points": int(sl.min_n_points), "min_n_intervals": int(sl.min_n_intervals)}
        out.append(x)
    return out


def predefined_cases():
    """every predefined model, well-formed and with every description malformation at every position"""
    V = _V.get()
    import virocon.predefined as P
    for g in GETTERS:
        dd0 = getattr(P, g)()[0]
        n = len(dd0)
        todo = [([], [])]
        for i, d in enumerate(dd0):
            dist = d["distribution"]
            free = [q for q in dist.parameters if getattr(dist, "f_" + q) is None]
            m = lambda cls: {"cls": cls, "pos": i, "phase": "PhModel", "inj": "predefined", "group": "other"}  # noqa
            h = lambda cls: {"cls": cls, "pos": i, "phase": "PhModel", "inj": "predefined", "group": "hierarchy"}  # noqa
            todo.append(([("del", i, "distribution")], [m("missing_distribution")]))
            todo.append(([("add_key", i, "interval")], [m("unknown_key")]))
            todo.append(([("add_key", i, "fit")], [m("unknown_key")]))
            if "conditional_on" in d:
                todo.append(([("del", i, "parameters")], [m("conditional_without_parameters")]))
                todo.append(([("add_param", i, "foo")], [m("unknown_parameter_name")]))
                todo.append(([("add_param", i, "f_" + free[0])], [m("unknown_parameter_name")]))
                for q in d["parameters"]:
                    todo.append(([("drop_param", i, q)], [m("parameter_neither_fixed_nor_dependent")]))
                    todo.append(([("fix", i, q, 1.5)], [m("parameter_fixed_and_dependent")]))
                    todo.append(([("fix", i, q, 0)], [m("parameter_fixed_and_dependent")]))
                for c, cls in ((["int", i], "conditional_on_itself"), (["int", n], "conditional_on_nonexistent"),
                               (["int", n + 4], "conditional_on_nonexistent"), (["int", -1], "conditional_on_negative"),
                               (["none"], "conditional_on_not_an_index"), (["num", 0.0], "conditional_on_not_an_index"),
                               (["str", "0"], "conditional_on_not_an_index")):
                    todo.append(([("cond", i, c)], [h(cls)]))
            elif i == 0:
                for c in (["int", 0], ["none"], ["int", 1]):
                    todo.append(([("cond", 0, c)], [h("first_variable_conditional")]))
            else:
                todo.append(([("cond", i, ["int", 0]), ("del", i, "parameters")], [m("conditional_without_parameters")]))
        for ops, mal in todo:
            pd = {"getter": g, "ops": [list(o) for o in ops]}
            yield {"descs": abstract_dd(V, predefined_dd(V, pd)), "fit": None, "points": None, "contour": None,
                   "mal": mal, "predefined": pd}


# ------------------------------------------------------------------ abstraction: spec -> Coq term
def q(s):
    return '"%s"' % s


def slist(xs):
    return "[" + "; ".join(q(x) for x in xs) + "]"


def coq_ref(v):
    if v[0] == "str":
        return {"center": "RCenter", "left": "RLeft", "right": "RRight"}.get(v[1].lower(), "RUnknownStr")
    return "RCallable" if v[0] == "callable" else "ROther"


def coq_slicer(s):
    return "(mkslicer %s %d %s %s %d)" % ({"width": "SWidth", "number": "SNumber", "points": "SPoints"}[s["kind"]],
                                         int(s["param"]) if s["kind"] != "width" else 0,
                                         slist(sorted(s.get("kwargs", {}))), coq_ref(s["ref"]), s["min_n_intervals"])


def coq_cond(c):
    if c is None:
        return "None"
    if c[0] == "int":
        return "(Some (CInt %s%%Z))" % vlib.z(c[1])
    return "(Some CNone)" if c[0] == "none" else "(Some COther)"


def coq_desc(d):
    return "(mkdesc %s %s %s %s %s %s %s %s)" % (
        "true" if d["has_distribution"] else "false", d["family"], slist(d["fixed"]), coq_cond(d["cond"]),
        "true" if d["has_parameters"] else "false", slist(d["dependent"]), slist(d["other_keys"]),
        "None" if d["intervals"] is None else "(Some %s)" % coq_slicer(d["intervals"]))


def coq_method(fd):
    if "method" not in fd:
        return "MMle"
    m = fd["method"]
    if m[0] != "str":
        return "MNotString"
    return {"mle": "MMle", "lsq": "MLsq", "wlsq": "MWlsq"}.get(m[1].lower(), "MUnknown")


def coq_weights(fd):
    if "weights" not in fd:
        return "WNone"
    w = fd["weights"]
    if w[0] == "none":
        return "WNone"
    if w[0] == "str":
        return {"linear": "WLinear", "quadratic": "WQuadratic", "cubic": "WCubic"}.get(w[1].lower(), "WUnknownStr")
    return "WArray" if w[0] == "array" else "WArrayNonFinite" if w[0] == "array_nonfinite" else "WScalar"


def coq_fit(spec, seed):
    f = spec["fit"]
    if f is None:
        return "None"
    V = _V.get()
    if f["descs"] is None:
        ds = "None"
    else:
        ds = "(Some [" + "; ".join("None" if fd is None else "(Some (mkfit %s %s %s))" % (
            "true" if ("method" in fd and "_raw_str" not in fd) else "false", coq_method(fd), coq_weights(fd)) for fd in f["descs"]) + "])"
    surv = []
    for c, d in enumerate(spec["descs"]):
        surv.append(surviving(V, d["intervals"], c, seed) if c < f["data_cols"] else 0)
    return "(Some (mkfitin %s %d [%s]))" % (ds, f["data_cols"], "; ".join("%d" % k for k in surv))


def coq_lim(e):
    return "LTuple %d" % len(e) if isinstance(e, (list, tuple)) else "LScalar"


def coq_contour(c):
    if c is None:
        return "None"
    if c["kind"] == "hdc":
        lim = "None" if c["limits"] is None else "(Some [" + "; ".join(coq_lim(e) for e in c["limits"]) + "])"
        d = c["deltas"]
        dl = "DNone" if d is None else ("(DList %d)" % len(d) if isinstance(d, (list, tuple)) else "DScalar")
        return "(Some (ReqHDC %s %s %s))" % (lim, dl, "true" if c.get("nan_at") is not None else "false")
    if c["kind"] == "iform":
        return "(Some (ReqIFORM %s))" % ({"ghm": "MKGlobalHierarchical", "transformed": "MKTransformed"}.get(c["model"], "MKOther"))
    return "(Some (Req2D %s))" % {"direct": "CDirectSampling", "and": "CAnd", "or": "COr"}[c["kind"]]


def coq_points(p):
    if p is None:
        return "None"
    rows = p["pts"] if (p["pts"] and isinstance(p["pts"][0], (list, tuple))) else [p["pts"]]
    return "(Some (%s, [%s]))" % ({"pdf": "EvPdf", "cdf": "EvCdf", "tm_pdf": "EvTransformedPdf", "tm_cdf": "EvTransformedCdf",
                                   "tm_empirical_cdf": "EvEmpiricalCdf"}[points_entry(p)],
                                  "; ".join("[" + "; ".join("(%s)%%float" % vlib.fl(x) for x in row) + "]" for row in rows))


def coq_scenario(spec, seed):
    return "(mkscenario [%s] %s %s %s)" % ("; ".join(coq_desc(d) for d in spec["descs"]), coq_fit(spec, seed),
                                           coq_points(spec.get("points")), coq_contour(spec.get("contour")))


SITE_QN = {"GHM_check_dist_descriptions": "GlobalHierarchicalModel._check_dist_descriptions",
           "CondDist_init": "ConditionalDistribution.__init__", "GHM_init": "GlobalHierarchicalModel.__init__",
           "GHM_check_and_fill_fit_desc": "GlobalHierarchicalModel._check_and_fill_fit_desc",
           "GHM_fit": "GlobalHierarchicalModel.fit", "Dist_fit": "Distribution.fit",
           "EW_fit_lsq": "ExponentiatedWeibullDistribution._fit_lsq", "Slicer_init": "IntervalSlicer.__init__",
           "PPI_init": "PointsPerIntervalSlicer.__init__", "Slicer_slice_": "IntervalSlicer.slice_",
           "PPI__slice": "PointsPerIntervalSlicer._slice", "HDC_check_grid": "HighestDensityContour._check_grid",
           "HDC_compute": "HighestDensityContour._compute", "IFORM_init": "IFORMContour.__init__",
           "GHM_pdf": "GlobalHierarchicalModel.pdf", "MM_cdf": "MultivariateModel.cdf", "TM_cdf": "TransformedModel.cdf",
           "TM_empirical_cdf": "TransformedModel.empirical_cdf",
           "HDC_cumsum_biggest_until": "HighestDensityContour.cumsum_biggest_until"}
C2D = {"CDirectSampling": "DirectSamplingContour", "CAnd": "AndContour", "COr": "OrContour"}


def model_obs(term, spec):
    """parsed `observe` result -> observation dict comparable with run_real's"""
    if term is None:
        return None
    ph, exc, site, tag, pos = term[1]
    if isinstance(site, tuple):          # C2D_compute k
        qn = C2D[site[1]] + "._compute"
    elif site == "Dist_fit_lsq":
        qn = CLASSNAME[spec["descs"][pos]["family"]].lstrip("_") + "._fit_lsq"
        if spec["descs"][pos]["family"] == "ScipyGamma":
            qn = "ScipyDistribution._fit_lsq"
    elif site == "Slicer__slice":
        c = spec["descs"][pos]["cond"][1]
        s = spec["descs"][c]["intervals"]
        qn = ("WidthOfIntervalSlicer" if s is not None and s["kind"] == "width" else "NumberOfIntervalsSlicer") + "._slice"
    else:
        qn = SITE_QN[site]
    return {"phase": ph, "exc": exc, "site": qn, "tag": tuple(tag) if isinstance(tag, tuple) else tag, "pos": pos}


def same(a, b):
    if a is None or b is None:
        return a is None and b is None
    ta = tuple(a["tag"]) if isinstance(a["tag"], (tuple, list)) else a["tag"]
    tb = tuple(b["tag"]) if isinstance(b["tag"], (tuple, list)) else b["tag"]
    return (a["phase"], a["exc"], a["site"], ta, a["pos"]) == (b["phase"], b["exc"], b["site"], tb, b["pos"])


# ------------------------------------------------------------------ well-formed base sessions
def structures(n):
    """all hierarchies: cond[0] = None, cond[i] in {None, 0..i-1}"""
    return [(None,) + t for t in itertools.product(*[[None] + list(range(i)) for i in range(1, n)])]


def base_desc(fam, cond, variant=0, fitted=False):
    """a well-formed description; variant picks the fixed / dependent partition"""
    ps = PARAMS[fam]
    fixed = []
    if cond is not None:
        # never all fixed, never fixed for families whose fixed-parameter fit is C11's subject when a fit follows
        if variant % 2 == 1 and not (fitted and fam in ("GenGamma", "VonMises", "ScipyGamma")):
            fixed = [ps[-1]] if fam != "ExpWeibull" else ["delta"]
    elif variant % 3 == 2 and fam == "ExpWeibull":
        fixed = ["delta"]
    return {"family": fam, "has_distribution": True, "fixed": fixed,
            "cond": None if cond is None else ["int", cond], "has_parameters": cond is not None,
            "dependent": [p for p in ps if p not in fixed] if cond is not None else [], "other_keys": [], "intervals": None}


def good_slicer(kind_idx):
    k = kind_idx % 3
    if k == 0:
        return {"kind": "number", "param": 4, "kwargs": {}, "ref": ["str", ["center", "Left", "RIGHT"][(kind_idx // 3) % 3]],
                "min_n_points": 10, "min_n_intervals": 2}
    if k == 1:
        return {"kind": "width", "param": 0.5, "kwargs": {}, "ref": ["callable"] if kind_idx % 2 else ["str", "right"],
                "min_n_points": 20, "min_n_intervals": 2}
    return {"kind": "points", "param": 60, "kwargs": {}, "ref": ["callable"], "min_n_points": 20, "min_n_intervals": 3}


def base_spec(n, struct, fams, variant=0, with_fit=False):
    descs = [base_desc(fams[i], struct[i], variant + i, fitted=with_fit) for i in range(n)]
    conditioning = sorted({c for c in struct if c is not None})
    for c in conditioning:
        # the model's default slicer (no 'intervals' key) where it keeps enough intervals for this data
        if not ((variant + c) % 4 == 1 and surviving(_V.get(), None, c, CUR["seed"]) >= 3):
            descs[c]["intervals"] = good_slicer(variant + c)
    spec = {"descs": descs, "fit": None, "points": None, "contour": None, "mal": []}
    if with_fit:
        fds = []
        for i in range(n):
            r = (variant + i) % 4
            if descs[i]["family"] == "ExpWeibull" and r == 1 and struct[i] is None:
                fds.append({"method": ["str", "wlsq"], "weights": ["array"]})
            elif descs[i]["family"] == "ExpWeibull" and r != 3:
                fds.append({"method": ["str", ["wlsq", "LSQ", "Wlsq"][r]], "weights": [["str", "quadratic"], ["none"], ["str", "Linear"]][r]})
            elif r == 0:
                fds.append(None)
            elif r == 1:
                fds.append({"method": ["str", "mle"]})
            else:
                fds.append({"method": ["str", "MLE"], "weights": ["str", "ignored for mle"] if r == 2 else ["none"]})
        spec["fit"] = {"descs": fds if variant % 5 else ([None] * n if variant % 2 else None), "data_cols": n}
    return spec


def good_points(n, rows=2):
    return [[0.7 + 0.3 * ((r + c) % 3) for c in range(n)] for r in range(rows)]


def good_hdc(n, deltas_kind=0):
    d = 0.6 if n <= 2 else 1.0
    # deltas = None means 401 cells per dimension: only requested for 1 dimension (or when the grid is rejected anyway)
    return {"kind": "hdc", "limits": [[0.3, 3.3] for _ in range(n)],
            "deltas": [d, [d] * n, None if n == 1 else d][deltas_kind % 3], "nan_at": None}


# ------------------------------------------------------------------ malformation injectors
# each: f(spec, pos, variant) -> label dict or None (not applicable); modifies spec in place
def _make_conditional(spec, i, c):
    d = spec["descs"][i]
    if d["cond"] is None:
        d["has_parameters"] = True
        d["dependent"] = [p for p in PARAMS[d["family"]] if p not in d["fixed"]]
        if not d["dependent"]:
            d["fixed"] = []
            d["dependent"] = list(PARAMS[d["family"]])
    d["cond"] = c


def m_missing_distribution(spec, i, v):
    spec["descs"][i]["has_distribution"] = False
    return {"cls": "missing_distribution", "pos": i, "phase": "PhModel"}


def m_cond_without_parameters(spec, i, v):
    d = spec["descs"][i]
    if d["cond"] is None:
        d["cond"] = ["int", 0]
    d["has_parameters"] = False
    d["dependent"] = []
    return {"cls": "conditional_without_parameters", "pos": i, "phase": "PhModel"}


def m_unknown_key(spec, i, v):
    spec["descs"][i]["other_keys"] = [["foo"], ["interval", "Distribution"], ["condition_on"]][v % 3]
    return {"cls": "unknown_key", "pos": i, "phase": "PhModel"}


def m_unknown_param(spec, i, v):
    d = spec["descs"][i]
    if d["cond"] is None:
        if i == 0:
            return None
        _make_conditional(spec, i, ["int", 0])
    foreign = [p for f in FAMILIES for p in PARAMS[f] if p not in PARAMS[d["family"]]]
    d["dependent"] = d["dependent"] + [["foo", foreign[(v + i) % len(foreign)], "f_" + PARAMS[d["family"]][0]][v % 3]]
    return {"cls": "unknown_parameter_name", "pos": i, "phase": "PhModel"}


def m_not_defined(spec, i, v):
    d = spec["descs"][i]
    if d["cond"] is None:
        if i == 0:
            return None
        _make_conditional(spec, i, ["int", 0])
    cand = [p for p in d["dependent"] if p in PARAMS[d["family"]] and p not in d["fixed"]]
    if not cand:
        return None
    drop = cand[v % len(cand)]
    d["dependent"] = [p for p in d["dependent"] if p != drop]
    return {"cls": "parameter_neither_fixed_nor_dependent", "pos": i, "phase": "PhModel"}


def m_both_given(spec, i, v):
    d = spec["descs"][i]
    if d["cond"] is None:
        if i == 0:
            return None
        _make_conditional(spec, i, ["int", 0])
    if not d["dependent"]:
        return None
    p = d["dependent"][v % len(d["dependent"])]
    if p not in PARAMS[d["family"]] or p in d["fixed"]:
        return None
    d["fixed"] = [x for x in PARAMS[d["family"]] if x in d["fixed"] or x == p]
    if p in FIXVAL and v % 2 == 0:
        d["fixzero"] = p
    return {"cls": "parameter_fixed_and_dependent", "pos": i, "phase": "PhModel"}


def m_first_conditional(spec, i, v):
    if i != 0:
        return None
    _make_conditional(spec, 0, [["int", 0], ["none"], ["int", 1]][v % 3])
    return {"cls": "first_variable_conditional", "pos": 0, "phase": "PhModel", "value": spec["descs"][0]["cond"]}


def m_cond_self(spec, i, v):
    if i == 0:
        return None
    _make_conditional(spec, i, ["int", i])
    return {"cls": "conditional_on_itself", "pos": i, "phase": "PhModel"}


def m_cond_later(spec, i, v):
    n = len(spec["descs"])
    if i == 0 or i >= n - 1:
        return None
    _make_conditional(spec, i, ["int", i + 1 + v % (n - 1 - i)])
    return {"cls": "conditional_on_later", "pos": i, "phase": "PhModel"}


def m_cond_nonexistent(spec, i, v):
    n = len(spec["descs"])
    if i == 0:
        return None
    _make_conditional(spec, i, ["int", [n, n + 3, 5][v % 3] if [n, n + 3, 5][v % 3] >= n else n])
    return {"cls": "conditional_on_nonexistent", "pos": i, "phase": "PhModel"}


def m_cond_negative(spec, i, v):
    if i == 0:
        return None
    _make_conditional(spec, i, ["int", [-1, -2, -len(spec["descs"])][v % 3]])
    return {"cls": "conditional_on_negative", "pos": i, "phase": "PhModel"}


def m_cond_nonint(spec, i, v):
    if i == 0:
        return None
    _make_conditional(spec, i, [["none"], ["num", 0.0], ["str", "0"]][v % 3])
    return {"cls": "conditional_on_not_an_index", "pos": i, "phase": "PhModel"}


def _need_fit(spec):
    return spec["fit"] is not None


def _fit_entries(spec):
    f = spec["fit"]
    n = len(spec["descs"])
    if f["descs"] is None:
        f["descs"] = [None] * n
    return f["descs"]


def m_fit_length(spec, i, v):
    if not _need_fit(spec) or i != 0:
        return None
    e = _fit_entries(spec)
    spec["fit"]["descs"] = [e[:-1], e + [None], [], e + [None, {"method": ["str", "mle"]}]][v % 4]
    return {"cls": "fit_descriptions_wrong_length", "pos": 0, "phase": "PhFit"}


def m_missing_method(spec, i, v):
    if not _need_fit(spec):
        return None
    e = _fit_entries(spec)
    if i >= len(e):
        return None
    e[i] = [{"weights": ["none"]}, {}, {"weights": ["str", "linear"]}, {"_raw_str": "mle"}][v % 4]
    return {"cls": "fit_description_without_method", "pos": i, "phase": "PhFit"}


def m_data_dim(spec, i, v):
    if not _need_fit(spec) or i != 0:
        return None
    n = len(spec["descs"])
    spec["fit"]["data_cols"] = n + 1 if (v % 2 == 0 or n == 1) else n - 1
    return {"cls": "data_wrong_dimension", "pos": 0, "phase": "PhFit"}


def _set_fit(spec, i, method=None, weights=None):
    e = _fit_entries(spec)
    if i >= len(e):
        return False
    fd = dict(e[i] or {"method": ["str", "mle"]})
    if method is not None:
        fd["method"] = method
    if weights is not None:
        fd["weights"] = weights
    e[i] = fd
    return True


def m_unknown_method(spec, i, v):
    if not _need_fit(spec) or not _set_fit(spec, i, method=["str", ["foo", "ml", "least squares", "", "mle ", "m.l.e"][v % 6]]):
        return None
    return {"cls": "unknown_fit_method", "pos": i, "phase": "PhFit"}


def m_method_not_string(spec, i, v):
    if not _need_fit(spec) or not _set_fit(spec, i, method=[["num", 3], ["none"]][v % 2]):
        return None
    return {"cls": "fit_method_not_a_string", "pos": i, "phase": "PhFit"}


def m_lsq_unsupported(spec, i, v):
    if not _need_fit(spec):
        return None
    d = spec["descs"][i]
    if d["family"] == "ExpWeibull":
        if d["cond"] is not None:
            return None      # would have to change which parameters are dependent
        newfix = ["alpha", "beta"][v % 2]
        d["fixed"] = [x for x in PARAMS["ExpWeibull"] if x in d["fixed"] or x == newfix]
    if not _set_fit(spec, i, method=["str", ["lsq", "WLSQ"][v % 2]], weights=["none"]):
        return None
    return {"cls": "fit_method_not_supported_by_family", "pos": i, "phase": "PhFit"}


def m_unknown_weights(spec, i, v):
    if not _need_fit(spec):
        return None
    if not _set_fit(spec, i, method=["str", ["wlsq", "lsq"][v % 2]], weights=[["str", "foo"], ["str", "quartic"], ["num", 3], ["array_nonfinite", 0], ["array_nonfinite", 1],
                                                                              ["array_nonfinite", 2]][v % 6]):
        return None
    if spec["descs"][i]["family"] == "ExpWeibull" and any(p in spec["descs"][i]["fixed"] for p in ("alpha", "beta")):
        pass
    return {"cls": "unknown_weights_keyword", "pos": i, "phase": "PhFit"}


def _conditioning(spec, c):
    return any(d["cond"] == ["int", c] for d in spec["descs"])


def _ensure_slicer(spec, c, v):
    if spec["descs"][c]["intervals"] is None:
        spec["descs"][c]["intervals"] = good_slicer(v)
    return spec["descs"][c]["intervals"]


def m_slicer_unknown_kwarg(spec, c, v):
    s = _ensure_slicer(spec, c, v)
    s["kwargs"] = [{"min_points": 5}, {"foo": 1}, {"n_min_intervals": 2, "center": True}][v % 3]
    return {"cls": "unknown_slicer_option", "pos": c, "phase": "PhSlicers"}


def m_ppi_ref_not_callable(spec, c, v):
    s = _ensure_slicer(spec, c, v)
    s.update({"kind": "points", "param": 60, "ref": [["str", "center"], ["none"], ["str", "median"]][v % 3]})
    return {"cls": "points_per_interval_reference_not_callable", "pos": c, "phase": "PhSlicers"}


def m_unknown_reference(spec, c, v):
    if not _need_fit(spec) or not _conditioning(spec, c):
        return None      # a slicer nobody slices with is never asked for its reference
    s = _ensure_slicer(spec, c, v)
    if s["kind"] == "points":
        return None      # PointsPerIntervalSlicer has no reference keywords (its class is m_ppi_ref_not_callable)
    s["ref"] = [["str", "middle"], ["str", "centre"], ["str", ""]][v % 3]
    return {"cls": "unknown_reference_keyword", "pos": c, "phase": "PhFit"}


def m_reference_type(spec, c, v):
    if not _need_fit(spec) or not _conditioning(spec, c):
        return None
    s = _ensure_slicer(spec, c, v)
    if s["kind"] == "points":
        return None
    s["ref"] = [["none"], ["num", 0.5]][v % 2]
    return {"cls": "reference_wrong_type", "pos": c, "phase": "PhFit"}


def m_too_few_intervals(spec, c, v):
    seed = CUR["seed"]
    if not _need_fit(spec) or not _conditioning(spec, c) or spec["fit"]["data_cols"] <= c:
        return None
    s = _ensure_slicer(spec, c, v)
    k = surviving(_V.get(), dict(s, kwargs={}, ref=["callable"] if s["kind"] == "points" else ["str", "center"]), c, seed)
    if s["kind"] == "number" and k >= s["param"]:
        s["min_n_points"] = 80                      # drop some intervals so that min_n_intervals can bite
        k = surviving(_V.get(), dict(s, kwargs={}, ref=["str", "center"]), c, seed)
        if k >= s["param"]:
            return None
    s["min_n_intervals"] = k + 1 + (v % 2)
    if s["kind"] == "number" and s["min_n_intervals"] > s["param"]:
        s["min_n_intervals"] = k + 1
    return {"cls": "too_few_intervals", "pos": c, "phase": "PhFit"}


EVAL_ENTRIES = ["pdf", "cdf", "tm_cdf", "tm_pdf", "tm_empirical_cdf"]


def m_nonfinite_point(spec, i, v):
    """nan / +inf / -inf at coordinate i; entry points pdf, cdf, TransformedModel.cdf / pdf / empirical_cdf; as one row
    of a 2-D array and as a single 1-D point; as ndarray and as nested list"""
    n = len(spec["descs"])
    kind = v % 3
    entry = EVAL_ENTRIES[(v // 3) % 5]
    single = (v // 15) % 2 == 1
    val = [float("nan"), float("inf"), float("-inf")][kind]
    if single and entry != "tm_empirical_cdf":
        pts = good_points(n, 1)[0]
        pts[i] = val
    else:
        rows = 2 + (v + i) % 2
        pts = good_points(n, rows)
        pts[(v + i) % rows][i] = val
    spec["points"] = {"entry": entry, "pts": pts, "as_list": (v + i) % 2 == 1}
    return {"cls": "non_finite_evaluation_point", "pos": i, "phase": "PhEval",
            "detail": "%s(%s), %s at coordinate %d" % (entry, "single point" if not isinstance(pts[0], list) else "one row of %d" % len(pts),
                                                        ["nan", "+inf", "-inf"][kind], i)}


def _hdc(spec, v):
    if spec["contour"] is None or spec["contour"]["kind"] != "hdc":
        spec["mal"] = [m for m in spec["mal"] if m["phase"] != "PhContour"]
        spec["contour"] = good_hdc(len(spec["descs"]), v)
    return spec["contour"]


def m_hdc_limits_length(spec, i, v):
    if i != 0:
        return None
    c = _hdc(spec, v)
    c["limits"] = c["limits"][:-1] if v % 2 == 0 else c["limits"] + [[0.3, 3.3]]
    return {"cls": "hdc_limits_wrong_length", "pos": 0, "phase": "PhContour"}


def m_hdc_deltas_length(spec, i, v):
    """deltas of every wrong length (0 .. n_dim-1 and n_dim+1), given as list, tuple and ndarray"""
    if i != 0:
        return None
    c = _hdc(spec, v)
    n = len(spec["descs"])
    lens = list(range(n)) + [n + 1]
    L = lens[v % 5 % len(lens)]
    c["deltas"] = [0.6 if n <= 2 else 1.0] * L
    c["deltas_as"] = ["list", "tuple", "ndarray"][(v // 5) % 3]
    return {"cls": "hdc_deltas_wrong_length", "pos": 0, "phase": "PhContour",
            "detail": "deltas = %s of length %d for a %d-dimensional model" % (c["deltas_as"], L, n)}


def m_hdc_limit_tuple(spec, i, v):
    c = _hdc(spec, v // 3)
    if i >= len(c["limits"]):
        return None
    c["limits"][i] = [[0.3, 1.0, 3.3], [3.3], []][v % 3]
    return {"cls": "hdc_limit_not_a_pair", "pos": i, "phase": "PhContour"}


def m_hdc_limit_scalar(spec, i, v):
    c = _hdc(spec, v)
    if i >= len(c["limits"]):
        return None
    c["limits"][i] = 3.3
    return {"cls": "hdc_limit_not_a_tuple", "pos": i, "phase": "PhContour"}


def m_hdc_nan(spec, i, v):
    d = spec["descs"][i]
    if d["cond"] is not None or d["family"] == "ExpWeibull" or not d["has_distribution"] or spec["fit"] is not None:
        return None       # ExponentiatedWeibull.pdf maps nan to 0; a fit would overwrite the parameter
    if PARAMS[d["family"]][0] in d["fixed"]:
        return None
    c = _hdc(spec, v)
    c["nan_at"] = i
    return {"cls": "hdc_nan_density", "pos": i, "phase": "PhContour"}


def m_not_2d(spec, i, v):
    """a 2-D-only contour on a 1-, 3- or 4-dimensional model, without a sample and with a caller-supplied sample of
    exactly two columns (which the 2-D algorithm could digest)"""
    if i != 0 or len(spec["descs"]) == 2:
        return None
    with_sample = (v // 3) % 2 == 1
    spec["mal"] = [m for m in spec["mal"] if m["phase"] != "PhContour"]     # the contour request is replaced
    spec["contour"] = {"kind": ["direct", "and", "or"][v % 3], "sample": "two_columns" if with_sample else None}
    return {"cls": "two_dimensional_contour_on_other_dimension", "pos": 0, "phase": "PhContour",
            "detail": "%s contour on a %d-dimensional model, %s" % (spec["contour"]["kind"], len(spec["descs"]),
                                                                     "sample with two columns supplied" if with_sample else "no sample supplied")}


def m_iform_model_type(spec, i, v):
    if i != 0:
        return None
    spec["mal"] = [m for m in spec["mal"] if m["phase"] != "PhContour"]     # the contour request is replaced
    spec["contour"] = {"kind": "iform", "model": ["str", "int", "none"][v % 3]}
    return {"cls": "iform_model_wrong_type", "pos": 0, "phase": "PhContour"}


# ---- classes judged by the oracle only (any exception in the right phase, before a result): values the model does
# not represent.  HDC grid values belong to "malformed HDC limits/deltas"; ill-shaped data to "data of the wrong
# dimension"; non-positive slicer sizes go beyond the statement's "unknown slicer options" (kept: they must not start
# to yield results silently).
def m_hdc_bad_value(spec, i, v):
    c = _hdc(spec, 1)                      # deltas as list
    n = len(spec["descs"])
    if i >= n:
        return None
    k = v % 7
    what = ["delta zero", "delta negative", "delta nan", "delta inf", "limit nan", "limit inf", "scalar delta zero"][k]
    if k <= 3:
        c["deltas"][i] = [0.0, -0.5, float("nan"), float("inf")][k]
    elif k == 4:
        c["limits"][i] = [float("nan"), 3.3]
    elif k == 5:
        c["limits"][i] = [0.3, float("inf")]
    else:
        c["deltas"] = 0
    return {"cls": "hdc_grid_value_invalid", "pos": i, "phase": "PhContour", "detail": what, "oracle_only": True}


def m_data_not_2d(spec, i, v):
    if not _need_fit(spec) or i != 0:
        return None
    spec["fit"]["data_shape"] = ["1d_N", "1d_n"][v % 2]
    return {"cls": "data_one_dimensional", "pos": 0, "phase": "PhFit", "oracle_only": True,
            "detail": "1-D data of length %s" % ("N" if v % 2 == 0 else "n_dim")}


def m_data_3d(spec, i, v):
    if not _need_fit(spec) or i != 0:
        return None
    spec["fit"]["data_shape"] = "3d"
    return {"cls": "data_three_dimensional", "pos": 0, "phase": "PhFit", "oracle_only": True, "detail": "data of shape (N, 3, n_dim)"}


def m_slicer_size(spec, c, v):
    if not _need_fit(spec) or not _conditioning(spec, c) or spec["fit"]["data_cols"] <= c:
        return None
    s = _ensure_slicer(spec, c, v)
    kind = ["width", "number", "points"][v % 3]
    s["kind"] = kind
    s["ref"] = ["callable"] if kind == "points" else ["str", "center"]
    s["param"] = {"width": [0, -0.5, float("nan")], "number": [0, -2, 0], "points": [0, -3, 10 * N_ROWS]}[kind][(v // 3) % 3]
    return {"cls": "slicer_size_not_positive", "pos": c, "phase": "PhFit", "oracle_only": True,
            "detail": "%s slicer with size %r" % (kind, s["param"])}


ORACLE_INJ = [m_hdc_bad_value, m_data_not_2d, m_data_3d, m_slicer_size]

MODEL_INJ = [m_missing_distribution, m_cond_without_parameters, m_unknown_key, m_unknown_param, m_not_defined, m_both_given,
             m_first_conditional, m_cond_self, m_cond_later, m_cond_nonexistent, m_cond_negative, m_cond_nonint]
FIT_INJ = [m_fit_length, m_missing_method, m_data_dim, m_unknown_method, m_method_not_string, m_lsq_unsupported, m_unknown_weights]
SLICER_INJ = [m_slicer_unknown_kwarg, m_ppi_ref_not_callable, m_unknown_reference, m_reference_type, m_too_few_intervals]
LATE_INJ = [m_nonfinite_point, m_hdc_limits_length, m_hdc_deltas_length, m_hdc_limit_tuple, m_hdc_limit_scalar, m_hdc_nan,
            m_not_2d, m_iform_model_type]
ALL_INJ = MODEL_INJ + FIT_INJ + SLICER_INJ + LATE_INJ
INJ_BY_NAME = {f.__name__: f for f in ALL_INJ + ORACLE_INJ}
NEEDS_FIT = set(f.__name__ for f in FIT_INJ) | {"m_unknown_reference", "m_reference_type", "m_too_few_intervals",
                                                 "m_data_not_2d", "m_data_3d", "m_slicer_size"}
# number of variants of the injected value (default 3)
NVARIANTS = {"m_hdc_deltas_length": 15, "m_hdc_bad_value": 7, "m_data_not_2d": 2, "m_data_3d": 1, "m_slicer_size": 9, "m_nonfinite_point": 30, "m_not_2d": 6, "m_unknown_method": 6, "m_fit_length": 4, "m_missing_method": 4,
             "m_unknown_weights": 6, "m_iform_model_type": 3}


GROUP = {"m_first_conditional": "hierarchy", "m_cond_self": "hierarchy", "m_cond_later": "hierarchy",
         "m_cond_nonexistent": "hierarchy", "m_cond_negative": "hierarchy", "m_cond_nonint": "hierarchy",
         "m_ppi_ref_not_callable": "points-per-interval-reference"}


def fams_for(n, carrier, pos, rot):
    """carrier family at pos, fast families elsewhere"""
    fast = ["LogNormal", "Weibull", "Normal", "LogNormalNormFit"]
    return [carrier if i == pos else fast[(rot + i) % 4] for i in range(n)]


def build_case(n, struct, pos_fams, injections, variant):
    """injections: list of (injector name, pos).  Returns spec or None when an injector does not apply."""
    with_fit = any(nm in NEEDS_FIT for nm, _ in injections) or (variant % 4 == 3 and not any(nm == "m_hdc_nan" for nm, _ in injections))
    spec = base_spec(n, struct, pos_fams, variant, with_fit=with_fit)
    for k, (nm, pos) in enumerate(injections):
        lab = INJ_BY_NAME[nm](spec, pos, variant + k)
        if lab is None:
            return None
        lab["inj"] = nm
        lab["group"] = GROUP.get(nm, "other")
        spec["mal"].append(lab)
    # keep the later phases cheap and deterministic: an HDC / IFORM run on a *fitted* model is never requested
    spec["gen"] = {"n": n, "struct": list(struct), "fams": list(pos_fams), "inj": [list(x) for x in injections], "variant": variant}
    if variant % 6 == 5:
        spec["via"] = "transformed"       # fit / contours are called on a TransformedModel wrapping the model
    if any(m.get("oracle_only") for m in spec["mal"]):
        spec["oracle_only"] = True
    return spec


def control_of(spec):
    """the well-formed neighbour of a session with one malformation: same dimension, hierarchy, families and variant,
    the same entry points called (fit / evaluation entry / contour kind) -- must NOT be rejected"""
    g = spec.get("gen")
    if g is None:
        return None
    n = g["n"]
    c = base_spec(n, tuple(g["struct"]), g["fams"], g["variant"], with_fit=spec["fit"] is not None)
    if spec.get("via"):
        c["via"] = spec["via"]
    if spec["points"] is not None:
        p = spec["points"]
        single = not isinstance(p["pts"][0], list)
        c["points"] = {"entry": points_entry(p), "pts": good_points(n, 1)[0] if single else good_points(n, len(p["pts"])),
                       "as_list": p.get("as_list", False)}
    if spec["contour"] is not None and spec["fit"] is None:
        k = spec["contour"]
        if k["kind"] == "hdc":
            c["contour"] = good_hdc(n, g["variant"])
            for key in ("limits_as", "deltas_as"):
                if key in k:
                    c["contour"][key] = k[key]
        elif k["kind"] == "iform":
            c["contour"] = {"kind": "iform", "model": "ghm"}
        elif n == 2:
            c["contour"] = dict(k)
    c["gen"] = dict(g, inj=[], control=True)
    return c


def expected_phase(spec):
    if not spec["mal"]:
        return None
    return min((m["phase"] for m in spec["mal"]), key=PHASES.index)


# ------------------------------------------------------------------ property oracle
def oracle(spec, real):
    """None if the property holds for this session, else (signature, message)"""
    exp = expected_phase(spec)
    if real is not None and real["tag"] == "?" and real["site"].endswith("._fit_mle") and \
            (exp is None or PHASES.index(real["phase"]) < PHASES.index(exp)):
        return "unjudgeable"      # the fitting engine failed on well-formed input: says nothing about validation
    if exp is None:
        if real is not None:
            return ({"clause": "well-formed-rejected", "site": real["site"]},
                    "a well-formed session raises %s in %s: %s" % (real["exc"], real["site"], real.get("msg", "")))
        return None
    first = [m for m in spec["mal"] if m["phase"] == exp]
    sig_cls = first[-1]["cls"]        # the malformation applied last survives when two touch the same object
    grp = [m["group"] for m in first if m["cls"] == sig_cls][0]
    if real is None:
        return ({"clause": "accepted", "group": grp, "malformation": sig_cls, "supplied_in": exp},
                "ill-formed session (%s) is accepted: every step returned a result" % ", ".join(
                    "%s at dimension %d%s" % (m["cls"], m["pos"], " [%s]" % m["detail"] if m.get("detail") else "") for m in spec["mal"]))
    if PHASES.index(real["phase"]) > PHASES.index(exp):
        return ({"clause": "rejected-late", "group": grp, "malformation": sig_cls, "supplied_in": exp, "raised_in": real["phase"]},
                "ill-formed input (%s at dimension %d) supplied in %s is only rejected in %s (%s in %s)" % (
                    first[0]["cls"], first[0]["pos"], exp, real["phase"], real["exc"], real["site"]))
    if PHASES.index(real["phase"]) < PHASES.index(exp):
        return ({"clause": "well-formed-rejected", "site": real["site"]},
                "%s raised in %s before the malformed input is supplied (%s)" % (real["exc"], real["site"], exp))
    return None


def shrink(spec, sig, seed):
    """smallest session (fewest dimensions, one malformation) of the same class that still fails the same way"""
    inj = [m["inj"] for m in spec["mal"] if m["cls"] == sig.get("malformation")]
    if not inj or inj[0] not in INJ_BY_NAME:
        return spec
    for n in range(1, 5):
        for struct in structures(n):
            for pos in range(n):
                for v in range(NVARIANTS.get(inj[0], 3)):
                    cand = build_case(n, struct, fams_for(n, "LogNormal", pos, 0), [(inj[0], pos)], v)
                    if cand is None:
                        continue
                    try:
                        o = oracle(cand, run_real(cand, seed))
                    except Exception:  # noqa
                        continue
                    if o not in (None, "unjudgeable") and o[0].get("malformation") == sig.get("malformation"):
                        return cand
    return spec


# ------------------------------------------------------------------ the entry points below the model, called directly
def unit_cases(full):
    """ConditionalDistribution(...), Distribution.fit(...), slicer constructors + slice_, cumsum_biggest_until: every
    family x every fixed / dependent partition, every method x weights combination, every slicer option combination.
    'bad' is the property's verdict (executable restatement), used by the oracle."""
    out = []
    for fam in FAMILIES:
        ps = PARAMS[fam]
        subsets = [[p for k, p in enumerate(ps) if m >> k & 1] for m in range(2 ** len(ps))]
        # U1 ConditionalDistribution: all partitions, with and without an unknown name
        for fixed in subsets:
            for dep in subsets:
                for extra in ([], ["foo"], ["f_" + ps[0]]):
                    if extra and not full and (len(fixed) + len(dep)) % 2:
                        continue
                    bad = bool(extra) or any((p in fixed) == (p in dep) for p in ps)
                    out.append({"unit": "cond", "family": fam, "fixed": fixed, "dependent": dep + extra,
                                "fixzero": ps[0] if (len(dep) % 2 and ps[0] in fixed) else None, "bad": bad})
        # U2 Distribution.fit
        fixsets = [[], [ps[-1]]] + (subsets if fam == "ExpWeibull" else [])
        methods = [["str", "mle"], ["str", "MLE"], ["str", "lsq"], ["str", "WLSQ"], ["str", "foo"], ["str", ""], ["str", "mle "],
                   ["num", 3], ["none"]]
        weights = [["none"], ["str", "linear"], ["str", "Quadratic"], ["str", "CUBIC"], ["str", "foo"], ["str", ""], ["num", 3],
                   ["array"], ["array_nonfinite", 0], ["array_nonfinite", 1]]
        for fixed in fixsets:
            if len(fixed) == len(ps):
                continue
            for m in methods:
                for w in weights:
                    is_mle = m[0] == "str" and m[1].lower() == "mle"
                    is_lsq = m[0] == "str" and m[1].lower() in ("lsq", "wlsq")
                    if is_mle and w not in (["none"], ["str", "foo"]):
                        continue            # weights are ignored by mle: two witnesses suffice
                    if not (is_mle or is_lsq) and w not in (["none"], ["str", "linear"]):
                        continue
                    w_ok = w[0] in ("none", "array") or (w[0] == "str" and w[1].lower() in ("linear", "quadratic", "cubic"))
                    f_ok = fixed == [] or ("delta" in fixed and "alpha" not in fixed and "beta" not in fixed)
                    bad = not (is_mle or (is_lsq and fam == "ExpWeibull" and w_ok and f_ok))
                    out.append({"unit": "fit", "family": fam, "fixed": fixed, "method": m, "weights": w, "bad": bad})
    # U3 slicers
    for kind, param in (("width", 0.5), ("number", 4), ("points", 120)):
        for kw in ({}, {"foo": 1}, {"min_points": 3}):
            for ref in (["str", "center"], ["str", "LEFT"], ["str", "Right"], ["str", "middle"], ["str", ""], ["callable"], ["none"], ["num", 1]):
                for mni in (0, "k", "k+1", 50):
                    out.append({"unit": "slicer", "slicer": {"kind": kind, "param": param, "kwargs": kw, "ref": ref,
                                                             "min_n_points": 15, "min_n_intervals": mni}})
    # U4 cumsum_biggest_until
    for cells in ([0.5, 0.3, 0.2], [0.5, float("nan"), 0.2], [float("nan")], [[0.4, 0.3], [0.2, 0.1]], [[0.4, float("nan")], [0.2, 0.1]],
                  [0.25] * 4, [0.3, 0.3, 0.3, 0.1]):
        flat = [x for r in cells for x in (r if isinstance(r, list) else [r])]
        out.append({"unit": "cumsum", "cells": cells, "bad": any(x != x for x in flat)})
    return out


def _resolve_slicer(u, seed):
    s = dict(u["slicer"])
    k = surviving(_V.get(), dict(s, kwargs={}, min_n_intervals=0, ref=["callable"] if s["kind"] == "points" else ["str", "center"]), 0, seed)
    if s["min_n_intervals"] == "k":
        s["min_n_intervals"] = k
    elif s["min_n_intervals"] == "k+1":
        s["min_n_intervals"] = k + 1
    eff = min(s["param"], s["min_n_intervals"]) if s["kind"] == "number" else s["min_n_intervals"]
    ref_ok = (s["ref"][0] == "callable") if s["kind"] == "points" else \
        (s["ref"][0] == "callable" or (s["ref"][0] == "str" and s["ref"][1].lower() in ("center", "left", "right")))
    bad = bool(s["kwargs"]) or not ref_ok or k < eff
    return s, k, bad


def run_unit(u, seed=0):
    V = _V.get()
    data = data_matrix(seed)
    np.random.seed((seed * 7919 + 17) % 2 ** 32)
    with warnings.catch_warnings():
        warnings.simplefilter("ignore")
        try:
            if u["unit"] == "cond":
                d = {"family": u["family"], "fixed": u["fixed"], "fixzero": u.get("fixzero")}
                V["D"].ConditionalDistribution(make_dist(V, d), {p: _dep(V) for p in u["dependent"]})
            elif u["unit"] == "fit":
                dist = make_dist(V, {"family": u["family"], "fixed": u["fixed"]})
                dist.fit(data[:, 0], dec_value(u["method"]), dec_value(u["weights"]))
            elif u["unit"] == "slicer":
                s, _, _ = _resolve_slicer(u, seed)
                make_slicer(V, s).slice_(data[:, 0])
            else:
                V["C"].HighestDensityContour.cumsum_biggest_until(np.array(u["cells"], dtype=float), 0.55)
        except Exception as e:  # noqa
            o = _obs(e, "unit")
            if u["unit"] == "slicer" and o["site"].endswith(".__init__"):
                o["pos"] = 0
            return o
    return None


def coq_unit(u, seed):
    if u["unit"] == "cond":
        return "check_cond 0 (mkdesc true %s %s (Some (CInt 0%%Z)) true %s [] None)" % (u["family"], slist(u["fixed"]), slist(u["dependent"]))
    if u["unit"] == "fit":
        fd = {"method": u["method"], "weights": u["weights"]}
        return "dispatch 0 %s %s %s %s" % (u["family"], slist(u["fixed"]), coq_method(fd), coq_weights(fd))
    if u["unit"] == "slicer":
        s, k, _ = _resolve_slicer(u, seed)
        return "and_then (validate_slicer_init 0 %s) (validate_slice 0 %s %d)" % (coq_slicer(s), coq_slicer(s), k)
    flat = [x for r in u["cells"] for x in (r if isinstance(r, list) else [r])]
    return "validate_no_nan_f [%s]" % "; ".join("(%s)%%float" % vlib.fl(x) for x in flat)


def unit_model_obs(term, u):
    if term is None:
        return None
    exc, site, tag, pos = term[1]
    if site == "Dist_fit_lsq":
        qn = ("ScipyDistribution" if u["family"] == "ScipyGamma" else CLASSNAME[u["family"]]) + "._fit_lsq"
    elif site == "Slicer__slice":
        qn = {"width": "WidthOfIntervalSlicer", "number": "NumberOfIntervalsSlicer"}[u["slicer"]["kind"]] + "._slice"
    else:
        qn = SITE_QN[site]
    return {"phase": "unit", "exc": exc, "site": qn, "tag": tag, "pos": pos}


def unit_oracle(u, real, seed):
    bad = _resolve_slicer(u, seed)[2] if u["unit"] == "slicer" else u["bad"]
    if real is not None and real["tag"] == "?" and real["site"].endswith("._fit_mle") and not bad:
        return "unjudgeable"
    what = {k: v for k, v in u.items() if k != "bad"}
    if bad and real is None:
        return ({"clause": "accepted", "group": "direct-call", "malformation": "unit_" + u["unit"]},
                "ill-formed direct call is accepted and returns: %s" % json.dumps(what))
    if not bad and real is not None:
        return ({"clause": "well-formed-rejected", "site": real["site"]},
                "well-formed direct call raises %s in %s (%s): %s" % (real["exc"], real["site"], real.get("msg", ""), json.dumps(what)))
    return None


# ------------------------------------------------------------------ beyond the statement's list (recorded, never judged)
def outside_statement_observations(seed):
    """inputs that the property text does not list; what the code does with them is written to the evidence file"""
    V = _V.get()
    C, J, D = V["C"], V["J"], V["D"]
    data = data_matrix(seed)

    def mk():
        return J.GlobalHierarchicalModel([{"distribution": D.WeibullDistribution(2, 1.5)},
                                          {"distribution": D.LogNormalDistribution(), "conditional_on": 0,
                                           "parameters": {"mu": _dep(V), "sigma": _dep(V)}}])
    lim = [(0.3, 3.3)] * 2
    probes = {}
    for a in (0, 1, -0.1, 1.5, float("nan")):
        probes["IFORMContour(alpha=%r)" % a] = lambda a=a: C.IFORMContour(mk(), a, n_points=6)
        probes["ISORMContour(alpha=%r)" % a] = lambda a=a: C.ISORMContour(mk(), a, n_points=6)
        probes["HighestDensityContour(alpha=%r)" % a] = lambda a=a: C.HighestDensityContour(mk(), a, lim, 0.6)
        probes["DirectSamplingContour(alpha=%r)" % a] = lambda a=a: C.DirectSamplingContour(mk(), a, n=500)
    probes["IFORMContour(n_points=0)"] = lambda: C.IFORMContour(mk(), 0.1, n_points=0)
    probes["IFORMContour(n_points=-3)"] = lambda: C.IFORMContour(mk(), 0.1, n_points=-3)
    probes["DirectSamplingContour(n=0)"] = lambda: C.DirectSamplingContour(mk(), 0.1, n=0)
    probes["DirectSamplingContour(deg_step=0)"] = lambda: C.DirectSamplingContour(mk(), 0.1, n=500, deg_step=0)
    probes["HighestDensityContour(TransformedModel)"] = lambda: C.HighestDensityContour(
        J.TransformedModel(mk(), _ident, _ident, _jac1), 0.3, lim, 0.6)
    probes["fit(data of shape (N, 3, 1)) on a 1-dimensional model"] = lambda: J.GlobalHierarchicalModel(
        [{"distribution": D.WeibullDistribution()}]).fit(np.stack([data[:, :1]] * 3, axis=1))
    probes["HighestDensityContour(limits with min == max)"] = lambda: C.HighestDensityContour(
        J.GlobalHierarchicalModel([{"distribution": D.WeibullDistribution(2, 1.5)}]), 0.3, [(2.0, 2.0)], 0.5)
    probes["ISORMContour('string')"] = lambda: C.ISORMContour("string", 0.1)
    probes["GHM([{'distribution': None}])"] = lambda: J.GlobalHierarchicalModel([{"distribution": None}])
    probes["GHM([{'distribution': 'weibull'}])"] = lambda: J.GlobalHierarchicalModel([{"distribution": "weibull"}])
    probes["GHM(parameters={'mu': 1.0, 'sigma': 2.0})"] = lambda: J.GlobalHierarchicalModel(
        [{"distribution": D.WeibullDistribution()}, {"distribution": D.LogNormalDistribution(), "conditional_on": 0, "parameters": {"mu": 1.0, "sigma": 2.0}}])
    probes["GHM(intervals=5)"] = lambda: J.GlobalHierarchicalModel([{"distribution": D.WeibullDistribution(), "intervals": 5}])
    probes["GHM([None])"] = lambda: J.GlobalHierarchicalModel([None])
    probes["GHM(conditional_on=True) at dimension 2"] = lambda: J.GlobalHierarchicalModel(
        [{"distribution": D.WeibullDistribution()}, {"distribution": D.WeibullDistribution()},
         {"distribution": D.LogNormalDistribution(), "conditional_on": True, "parameters": {"mu": _dep(V), "sigma": _dep(V)}}])
    probes["fit(fit_descriptions as tuple with a None entry)"] = lambda: mk().fit(data[:, :2], ({"method": "mle"}, None))
    probes["fit(data with a nan row)"] = lambda: mk().fit(np.r_[data[:, :2], [[np.nan, 1.0]]])
    probes["pdf(point with 3 coordinates) on a 2-dimensional model"] = lambda: mk().pdf([[1.0, 2.0, 3.0]])
    probes["pdf(point with 1 coordinate) on a 2-dimensional model"] = lambda: mk().pdf([[1.0]])
    probes["marginal_cdf([nan], 0)"] = lambda: mk().marginal_cdf(np.array([np.nan]), 0)
    probes["draw_sample(-1)"] = lambda: mk().draw_sample(-1)
    probes["ExponentiatedWeibull.fit(wlsq, weights of wrong length)"] = lambda: D.ExponentiatedWeibullDistribution().fit(data[:, 0], "wlsq", np.ones(10))
    probes["WidthOfIntervalSlicer(0.5, reference='middle') never used for slicing"] = lambda: V["I"].WidthOfIntervalSlicer(0.5, reference="middle")
    out = {}
    with warnings.catch_warnings():
        warnings.simplefilter("ignore")
        for k, f in probes.items():
            try:
                r = f()
                extra = ""
                co = getattr(r, "coordinates", None)
                if isinstance(co, np.ndarray):
                    extra = " coordinates %s%s" % (co.shape, " with nan" if co.size and np.isnan(co.astype(float)).any() else "")
                elif isinstance(r, np.ndarray):
                    extra = " %r" % r.tolist()[:3]
                out[k] = "returns %s%s" % (type(r).__name__, extra)
            except Exception as e:  # noqa
                fr = _frames(e)
                out[k] = "raises %s in %s" % (type(e).__name__, fr[-1][1] if fr else "?")
    return out


def replay(ctx, spec):
    CUR["seed"] = spec.get("seed", 0)
    if "unit" in spec:
        o = unit_oracle(spec, run_unit(spec, CUR["seed"]), CUR["seed"])
        if o not in (None, "unjudgeable"):
            print("  ", o[1])
            return True
        return False
    real = run_real(spec, spec.get("seed", 0))
    o = oracle(spec, real)
    if o not in (None, "unjudgeable"):
        print("  ", o[1])
        return True
    print("   real:", real)
    return False


# ------------------------------------------------------------------ enumeration
def singles(ns, full):
    """every injector x every position x every structure x every family as carrier"""
    for n in ns:
        for si, struct in enumerate(structures(n)):
            for pos in range(n):
                for f in ALL_INJ:
                    nm = f.__name__
                    # the carrier family matters for the description and fit classes; the others rotate through two
                    fam_list = FAMILIES if (f in MODEL_INJ or f in FIT_INJ) else \
                        ([FAMILIES[(n + pos + si) % 8], FAMILIES[(n + pos + si + 4) % 8]] if full else [FAMILIES[(n + pos) % 8]])
                    for fi, fam in enumerate(fam_list):
                        nv = NVARIANTS.get(nm, 3)
                        for v in (range(nv) if full else [(n + pos + fi + si) % nv]):
                            yield (n, struct, fams_for(n, fam, pos, fi + v), [(nm, pos)], v)


def pairs(ns, all_structs_upto=0):
    """every pair of injectors x every pair of positions; hierarchies: all of them for n <= all_structs_upto, else
    chain / star / mixed; the carrier family at the first malformed position rotates through all families"""
    k = 0
    for n in ns:
        structs = [tuple([None] + list(range(n - 1))), tuple([None] + [0] * (n - 1)),
                   tuple([None] + [None if i % 2 else i - 1 for i in range(1, n)])]
        if n <= all_structs_upto:
            structs = structures(n)
        for struct in dict.fromkeys(structs):
            for p in range(n):
                for r in range(n):
                    for a in ALL_INJ:
                        for b in ALL_INJ:
                            if a is b and p == r:
                                continue
                            k += 1
                            yield (n, struct, fams_for(n, FAMILIES[k % 8], p, k // 8), [(a.__name__, p), (b.__name__, r)], k % 3)


def valid_cases(ns, per_struct):
    k = 0
    for n in ns:
        for struct in structures(n):
            for j in range(per_struct):
                k += 1
                fams = [FAMILIES[(k + 3 * i + j) % 8] for i in range(n)]
                yield (n, struct, fams, [], k)


def decorate_valid(spec, k, n):
    """a well-formed session also evaluates (every entry point) and draws a contour"""
    if k % 2 == 0:
        entry = EVAL_ENTRIES[(k // 2) % 5]
        pts = good_points(n, 1 + k % 3)
        spec["points"] = {"entry": entry, "pts": pts[0] if (k % 3 == 0 and entry != "tm_empirical_cdf") else pts, "as_list": k % 4 == 0}
    if spec["fit"] is None:
        r = k % 5
        if r in (0, 1):
            spec["contour"] = good_hdc(n, k)
            spec["contour"]["limits_as"] = ["tuples", "lists", "ndarray"][k % 3]
            spec["contour"]["deltas_as"] = ["list", "tuple", "ndarray"][(k // 3) % 3]
        elif r == 2:
            spec["contour"] = {"kind": "iform", "model": "ghm"}
        elif r == 3 and n == 2:
            spec["contour"] = {"kind": ["direct", "and", "or"][k % 3], "sample": "two_columns" if (k // 3) % 2 else None}
    else:
        spec["fit"]["as_list"] = k % 3 == 0
    if k % 7 == 3:
        spec["descs_as_tuple"] = True
    return spec


def two_d_controls():
    """the 2-D-only contours on 2-dimensional models, without and with a supplied sample (controls of m_not_2d)"""
    k = 0
    for struct in ((None, None), (None, 0)):
        for kind in ("direct", "and", "or"):
            for smp in (None, "two_columns"):
                k += 1
                spec = base_spec(2, struct, [FAMILIES[k % 8], FAMILIES[(k + 3) % 8]], k, with_fit=False)
                spec["contour"] = {"kind": kind, "sample": smp}
                spec["gen"] = {"n": 2, "struct": list(struct), "control": True}
                yield spec
    # IFORM accepts a TransformedModel (one Monte-Carlo based computation, a few seconds)
    spec = base_spec(2, (None, 0), ["Weibull", "LogNormal"], 0, with_fit=False)
    spec["via"] = "transformed"
    spec["contour"] = {"kind": "iform", "model": "transformed"}
    yield spec


def run(ctx):
    V = _V.get()
    ctx.proof_gate()
    rng = ctx.rng
    seed = ctx.seed
    CUR["seed"] = seed
    quick = ctx.quick()

    # ---- case list: leads first, then the core (all singles on every hierarchy, rotating variants), then a
    # random sample of singles with all variants and of pairs; thorough: everything.
    gens = []
    lead = [(3, (None, 0, 1), ["Weibull", "LogNormal", "Weibull"], [("m_cond_self", 1)], 0),
            (3, (None, 0, 1), ["Weibull", "LogNormal", "Weibull"], [("m_cond_later", 1)], 0),
            (2, (None, 0), ["Weibull", "LogNormal"], [("m_cond_nonexistent", 1)], 2),
            (2, (None, 0), ["Weibull", "LogNormal"], [("m_cond_negative", 1)], 0),
            (2, (None, 0), ["Weibull", "LogNormal"], [("m_cond_nonint", 1)], 0),
            (2, (None, 0), ["Weibull", "LogNormal"], [("m_ppi_ref_not_callable", 0)], 0),
            (1, (None,), ["LogNormal"], [("m_first_conditional", 0)], 1)]
    gens += lead
    # always on: every variant of the classes with many value variants and of the oracle-only classes, at every
    # position (chain hierarchy; thorough: every hierarchy)
    for n in (1, 2, 3, 4):
        chain = tuple([None] + list(range(n - 1)))
        for struct in ([chain] if quick else structures(n)):
            for nm in sorted(NVARIANTS):
                for pos in range(n):
                    for v in range(NVARIANTS[nm]):
                        gens.append((n, struct, fams_for(n, FAMILIES[(n + pos + v) % 8], pos, v), [(nm, pos)], v))
    if quick:
        by_inj = {}
        for g in singles([1, 2, 3, 4], full=False):
            by_inj.setdefault(g[3][0][0], []).append(g)
        for nm in sorted(by_inj):
            rng.shuffle(by_inj[nm])
            # applicable ones only, so that every class is present
            take = 0
            for g in by_inj[nm]:
                if take >= (60 if nm in NEEDS_FIT else 90):
                    break
                if build_case(*g) is not None:
                    gens.append(g)
                    take += 1
        allp = list(pairs([2, 3]))
        rng.shuffle(allp)
        gens += allp[:2500]
        gens += list(valid_cases([1, 2, 3, 4], 2))
    else:
        # exhaustive: every class x every position x every hierarchy x every family x 3 variants of the injected
        # value; every ordered pair of classes x every pair of positions (all hierarchies of 2 and 3 dimensions,
        # chain / star / mixed for 4)
        gens += list(singles([1, 2, 3, 4], full=True))
        gens += list(pairs([2, 3, 4], all_structs_upto=3))
        gens += list(valid_cases([1, 2, 3, 4], 12))
    cases = []
    n_inapplicable = 0
    seen = set()
    for (n, struct, fams, inj, v) in gens:
        spec = build_case(n, struct, fams, inj, v)
        if spec is None:
            n_inapplicable += 1
            continue
        if not inj:
            decorate_valid(spec, v, n)
        spec["seed"] = seed
        key = json.dumps({k: spec.get(k) for k in ("descs", "fit", "points", "contour", "via")}, sort_keys=True)
        if key in seen:
            continue
        seen.add(key)
        cases.append(spec)
    # well-formed controls right next to the malformed sessions: the same session without the malformation
    n_controls = 0
    per_cls = {}
    for spec in list(cases):
        if len(spec["mal"]) != 1:
            continue
        cls = spec["mal"][0]["cls"]
        per_cls[cls] = per_cls.get(cls, 0) + 1
        cap = (10, 25) if quick else (150, 400)
        if per_cls[cls] > cap[0 if spec["fit"] is not None else 1]:
            continue          # the first controls of every class (quick: 10 with fit / 25 without; thorough: 150 / 400)
        c = control_of(spec)
        if c is None:
            continue
        c["seed"] = seed
        key = json.dumps({k: c.get(k) for k in ("descs", "fit", "points", "contour", "via")}, sort_keys=True)
        if key in seen:
            continue
        seen.add(key)
        cases.append(c)
        n_controls += 1
    for spec in two_d_controls():
        spec["seed"] = seed
        cases.append(spec)
    # every predefined model as carrier (the real dictionaries returned by the getters, mutated)
    n_pre = 0
    for spec in predefined_cases():
        spec["seed"] = seed
        cases.append(spec)
        n_pre += 1
    ctx.notes["generated"] = {"requested": len(gens), "inapplicable_combinations": n_inapplicable, "distinct_sessions": len(cases),
                              "well_formed_controls_of_single_malformations": n_controls, "predefined_model_sessions": n_pre}

    # ---- real runs
    import time
    t_real = time.time()
    reals = []
    for spec in cases:
        try:
            reals.append(run_real(spec, seed))
        except Exception as e:  # noqa  (harness problem, not a finding)
            reals.append({"phase": "?", "exc": "HARNESS:" + type(e).__name__, "site": "?", "tag": "?", "pos": 0,
                          "msg": traceback.format_exc()[-400:]})
    t_real = time.time() - t_real
    dist = {}
    per_class = {}
    for spec in cases:
        for m in spec["mal"]:
            per_class[m["cls"]] = per_class.get(m["cls"], 0) + 1
    ctx.notes["sessions_per_malformation_class"] = per_class
    for spec, r in zip(cases, reals):
        k = "%d-dim/%s/%s" % (len(spec["descs"]), "+".join(sorted(m["cls"] for m in spec["mal"])) if len(spec["mal"]) < 2 else "pair",
                              "ok" if r is None else r["exc"] + "@" + r["phase"])
        dist[k] = dist.get(k, 0) + 1
        ctx.count(json.dumps({k2: spec[k2] for k2 in ("descs", "fit", "points", "contour")}, sort_keys=True), bool(spec["mal"]))
    ctx.notes["input_distribution"] = {"by_dimension": {str(n): sum(1 for s in cases if len(s["descs"]) == n) for n in (1, 2, 3, 4)},
                                       "single": sum(1 for s in cases if len(s["mal"]) == 1),
                                       "pairs": sum(1 for s in cases if len(s["mal"]) == 2),
                                       "well_formed": sum(1 for s in cases if not s["mal"]),
                                       "real_outcomes": _top(dist, 60)}
    for spec, r in list(zip(cases, reals))[:3]:
        ctx.sample({"session": {k: spec[k] for k in ("descs", "fit", "points", "contour", "mal")}, "implementation": r})

    # ---- correspondence
    shard = 300
    items = []
    corr = [i for i, c in enumerate(cases) if not c.get("oracle_only")]      # oracle-only classes have no model counterpart
    for s in range(0, len(corr), shard):
        body = ("From V.model Require Import Validate.\nLocal Open Scope string_scope.\nLocal Open Scope nat_scope.\n"
                "Definition cases : list scenario := [\n" + ";\n".join(coq_scenario(cases[i], seed) for i in corr[s:s + shard]) +
                "].\nEval vm_compute in map observe cases.\n")
        items.append(("cases_%d" % (s // shard), body))
    # the entry points below the model, called directly
    units = unit_cases(not quick)
    t_unit = time.time()
    unit_reals = []
    for u in units:
        try:
            unit_reals.append(run_unit(u, seed))
        except Exception as e:  # noqa
            unit_reals.append({"phase": "unit", "exc": "HARNESS:" + type(e).__name__, "site": "?", "tag": "?", "pos": 0,
                               "msg": traceback.format_exc()[-400:]})
    t_unit = time.time() - t_unit
    unit_prelude = ("From V.model Require Import Validate.\nLocal Open Scope string_scope.\nLocal Open Scope nat_scope.\n"
                    "Definition obs (r : result) := match r with Ok => None | Err t p => Some (exc_of t, site_of t, t, p) end.\n")
    for s in range(0, len(units), 400):
        items.append(("units_%d" % (s // 400), unit_prelude + "Eval vm_compute in map obs [\n" +
                      ";\n".join(coq_unit(u, seed) for u in units[s:s + 400]) + "].\n"))
    t_coq = time.time()
    outs = ctx.coq_eval_many(items, jobs=12)
    ctx.notes["timing_s"] = {"real_runs": round(t_real, 1), "direct_calls": round(t_unit, 1), "coq_vm_compute": round(time.time() - t_coq, 1)}
    models = [None] * len(cases)
    have = [False] * len(cases)
    unit_models = [None] * len(units)
    unit_have = [False] * len(units)
    for (name, _), o in zip(items, outs):
        if o is None:
            continue
        terms = vlib.parse_term(o[0])
        k = int(name.split("_")[1])
        for i, t in enumerate(terms):
            if name.startswith("cases_"):
                idx = corr[k * shard + i]
                models[idx] = model_obs(t, cases[idx])
                have[idx] = True
            else:
                unit_models[k * 400 + i] = unit_model_obs(t, units[k * 400 + i])
                unit_have[k * 400 + i] = True
    ncmp = nmis = 0
    suspects = []
    unjudgeable = 0
    for idx, (spec, r) in enumerate(zip(cases, reals)):
        if not have[idx]:
            continue
        if r is not None and r["tag"] == "?" and (r["site"].endswith("._fit_mle") or r["exc"].startswith("HARNESS")):
            unjudgeable += 1
            if r["exc"].startswith("HARNESS"):
                ctx.broken.append(("harness-crash", "run_real", r["msg"]))
            continue
        ncmp += 1
        if not same(models[idx], r):
            nmis += 1
            ctx.mismatch("session %d" % idx, "model %r / implementation %r / session %s" % (
                models[idx], r, json.dumps({k2: spec[k2] for k2 in ("descs", "fit", "points", "contour")})[:900]))
            suspects.append(idx)
    n_ucmp = n_umis = 0
    unit_suspects = []
    for i, (u, r) in enumerate(zip(units, unit_reals)):
        if not unit_have[i]:
            continue
        if r is not None and r["exc"].startswith("HARNESS"):
            ctx.broken.append(("harness-crash", "run_unit", r["msg"]))
            continue
        if r is not None and r["tag"] == "?" and r["site"].endswith("._fit_mle"):
            unjudgeable += 1
            continue
        n_ucmp += 1
        if not same(unit_models[i], r):
            n_umis += 1
            ctx.mismatch("direct call %d" % i, "model %r / implementation %r / call %s" % (unit_models[i], r, json.dumps(u)[:600]))
            unit_suspects.append(i)
        ctx.count(json.dumps(u, sort_keys=True), bool(_resolve_slicer(u, seed)[2] if u["unit"] == "slicer" else u["bad"]))
    ctx.cov["programs"] = 2
    ctx.notes["correspondence"] = {"sessions_compared": ncmp, "mismatches": nmis, "unjudgeable_engine_errors": unjudgeable,
                                   "oracle_only_sessions": len(cases) - len(corr),
                                   "direct_calls_compared": n_ucmp, "direct_call_mismatches": n_umis,
                                   "direct_calls": {k: sum(1 for u in units if u["unit"] == k) for k in ("cond", "fit", "slicer", "cumsum")},
                                   "compared": "raised or not, phase, exception class, raising function, check, dimension"}

    # ---- search: property oracle, disagreeing sessions first
    found = {}
    order = suspects + [i for i in range(len(cases)) if i not in set(suspects)]
    nunj = 0
    for idx in order:
        o = oracle(cases[idx], reals[idx])
        if o is None:
            continue
        if o == "unjudgeable":
            nunj += 1
            continue
        sig, msg = o
        key = json.dumps(sig, sort_keys=True)
        if key in found:
            found[key][2] += 1
            continue
        found[key] = [sig, msg, 1, idx]
    for key, (sig, msg, cnt, idx) in found.items():
        small = shrink(cases[idx], sig, seed)
        small["seed"] = seed
        o2 = oracle(small, run_real(small, seed))
        if o2 in (None, "unjudgeable"):
            small, o2 = cases[idx], (sig, msg)
        ctx.violation(o2[0], "%s  [%d sessions of this kind]" % (o2[1], cnt), {k: v for k, v in small.items() if k != "gen"})
    ufound = {}
    for i in unit_suspects + [j for j in range(len(units)) if j not in set(unit_suspects)]:
        o = unit_oracle(units[i], unit_reals[i], seed)
        if o in (None, "unjudgeable"):
            continue
        key = json.dumps(o[0], sort_keys=True)
        if key not in ufound:
            ufound[key] = (o, i, 1)
        else:
            ufound[key] = (ufound[key][0], ufound[key][1], ufound[key][2] + 1)
    for key, (o, i, cnt) in ufound.items():
        ctx.violation(o[0], "%s  [%d direct calls of this kind]" % (o[1], cnt), dict(units[i], seed=seed))
    ctx.notes["outside_statement_observations"] = outside_statement_observations(seed)
    ctx.notes["oracle"] = {"sessions_judged": len(cases) - nunj, "unjudgeable": nunj, "violation_kinds": len(found)}
    ctx.cov["rule"] = ("sessions = well-formed 1-4 dimensional descriptions (every hierarchy cond[i] in {None, 0..i-1}) with 0, 1 or 2 injected "
                       "malformations (%d classes: model description, fit, slicer, evaluation point, HDC grid, 2-D / IFORM guards) at every "
                       "position, every distribution family as carrier at the malformed position; non-trivial = at least one malformation; "
                       "distinct = hash of the session" % len(ALL_INJ))
    ctx.cov["trusted_base"] = ["Coq 8.16.1 kernel + vm_compute", "harness tools/harness/c18.py: generators, the abstraction spec -> Coq record "
                               "(coq_desc / coq_fit / coq_contour), classification of real exceptions by innermost virocon frame and message",
                               "number of surviving intervals per slicer and data column taken from the real slicer (oracle table)"]
    ctx.assumptions += ["the fitting engines (scipy fit, curve_fit) succeed on the well-formed sessions' data (engine errors are counted as unjudgeable)",
                        "dictionaries are abstracted to key presence / value kind; values outside the listed kinds (e.g. bool as conditional_on) are not modelled"]


def _top(d, k):
    return dict(sorted(d.items(), key=lambda kv: -kv[1])[:k])
