(* C18 -- ill-formed model, fit and contour specifications are rejected, not computed.
   Property theorems only; the model is model/Validate.v (the Gallina functions that the
   correspondence check evaluates with vm_compute against the real constructors and entry
   points), the specifications (wf_desc, WellFormedModel, WellFormedFit, wf_slicer_init, wf_slice,
   WellFormedHDC, WellFormedScenario) and the proofs are in proofs/ValidateProofs.v.

   Every theorem is an equivalence  validate x = Ok <-> WellFormed x  for descriptions of any
   length: "->" says that every ill-formed input -- at every position, alone or combined with
   others -- raises; "<-" says that nothing well-formed is rejected. *)
From Coq Require Import List Bool Arith ZArith String PrimFloat.
From V.model Require Import Validate.
From V.proofs Require Import ValidateProofs.
Import ListNotations.
Local Open Scope string_scope.
Local Open Scope nat_scope.

(* model descriptions: distribution present; conditional => parameters; no unknown keys or parameter
   names; every parameter fixed xor dependent; conditional_on an int with 0 <= conditional_on[i] < i
   (so the first variable is unconditional and nothing depends on itself, a later or a non-existent
   variable) *)
Theorem C18_model_description : forall ds, validate_model ds = Ok <-> WellFormedModel ds.
Proof. exact validate_model_iff. Qed.

Theorem C18_ill_formed_description_rejected : forall ds j d,
  nth_error ds j = Some d -> ~ wf_desc j d -> exists t p, validate_model ds = Err t p.
Proof. exact ill_formed_rejected. Qed.

Theorem C18_hierarchy : forall ds, validate_model ds = Ok ->
  (forall d0, nth_error ds 0 = Some d0 -> d_conditional_on d0 = None) /\
  (forall i d cv, nth_error ds i = Some d -> d_conditional_on d = Some cv ->
     exists c, cv = CInt c /\ (0 <= c < Z.of_nat i)%Z /\ Z.to_nat c < i /\ Z.to_nat c < List.length ds).
Proof. exact accepted_hierarchy. Qed.

(* the exception names a dimension whose description is ill-formed *)
Theorem C18_reported_dimension : forall ds t p, validate_model ds = Err t p ->
  t <> EmptyModel -> exists d, nth_error ds p = Some d /\ ~ wf_desc p d.
Proof. exact reported_position_ill_formed. Qed.

(* the validation as it was before the repair (no hierarchy check) accepts ill-formed descriptions:
   variable 1 conditional on variable 2, and on itself (lead L10) *)
Theorem C18_hierarchy_refuted_without_check :
  validate_model_gen false [ok0; bad1; ok0] = Ok /\ ~ WellFormedModel [ok0; bad1; ok0] /\
  validate_model_gen false [ok0; self1] = Ok /\ ~ WellFormedModel [ok0; self1].
Proof. exact without_hierarchy_check_unsound. Qed.

(* fit: one fit description per dimension, each None or with a method; data of the model's dimension;
   per dimension a known method that the family implements, a known weights keyword where weights are
   used, and (conditional dimensions) a slicer with a known reference that leaves enough intervals *)
Theorem C18_fit : forall ds fi, validate_fit ds fi = Ok <-> WellFormedFit ds fi.
Proof. exact validate_fit_iff. Qed.

(* the exception raised by fit names what is wrong *)
Theorem C18_fit_reported_dimension : forall ds fi t p, validate_fit ds fi = Err t p ->
  (t = FitLength /\ exists l, fi_descs fi = Some l /\ List.length l <> List.length ds) \/
  (t = MissingMethod /\ exists l f, fi_descs fi = Some l /\ nth_error l p = Some (Some f) /\ f_has_method f = false) \/
  (t = DataDimension /\ fi_data_cols fi <> List.length ds) \/
  (exists d, nth_error ds p = Some d /\ ~ wf_fit_dim ds fi p d).
Proof. exact fit_reported_position. Qed.

(* the entry points below fit, called directly: Distribution.fit (method / weights dispatch of every family) and
   ConditionalDistribution.__init__ *)
Theorem C18_fit_dispatch : forall i fam fixed m w, dispatch i fam fixed m w = Ok <-> method_ok fam fixed m w.
Proof. exact dispatch_iff. Qed.
Theorem C18_conditional_distribution : forall i d cv, d_conditional_on d = Some cv ->
  (check_cond i d = Ok <->
   (forall p, In p (d_dependent d) -> In p (d_params d)) /\
   (forall p, In p (d_params d) ->
      (In p (d_dependent d) /\ ~ In p (d_fixed d)) \/ (~ In p (d_dependent d) /\ In p (d_fixed d)))).
Proof. exact conditional_distribution_iff. Qed.

(* with the hierarchy check in place the separate first-dimension RuntimeError can no longer be reached *)
Theorem C18_first_dimension_check_unreachable : forall d0, check_keys true 0 d0 = Ok -> check_first d0 = Ok.
Proof. exact first_conditional_unreachable. Qed.

(* slicer options at construction; reference keyword and number of intervals at slice_ *)
Theorem C18_slicer_options : forall i s, validate_slicer_init i s = Ok <-> wf_slicer_init s.
Proof. exact validate_slicer_init_iff. Qed.
Theorem C18_slicing : forall i s surviving, validate_slice i s surviving = Ok <-> wf_slice s surviving.
Proof. exact validate_slice_iff. Qed.

(* evaluation points, for any value type with a finiteness test ... *)
(* (for each of the entry points pdf, cdf, TransformedModel.pdf / cdf / empirical_cdf) *)
Theorem C18_evaluation_points : forall (T : Type) (finite : T -> bool) (e : evalpoint) (pts : list (list T)),
  validate_points T finite e pts = Ok <-> forall row, In row pts -> forall x, In x row -> finite x = true.
Proof. exact validate_points_iff. Qed.
(* ... of which the executed binary64 validator is the instance (nan, +inf, -inf are the non-finite values) *)
Theorem C18_evaluation_points_binary64 :
  validate_points_f = validate_points float is_finite /\
  is_finite nan = false /\ is_finite infinity = false /\ is_finite neg_infinity = false /\
  is_finite 0%float = true /\ is_finite 0x1.fffffffffffffp+1023%float = true.
Proof. repeat split; reflexivity. Qed.

(* cumsum_biggest_until rejects arrays with nan *)
Theorem C18_cumsum_nan : forall (T : Type) (isnan : T -> bool) (cells : list T),
  validate_no_nan T isnan cells = Ok <-> forall x, In x cells -> isnan x = false.
Proof. exact (fun T => validate_no_nan_iff T). Qed.

(* HDC: limits of length n_dim made of pairs, deltas scalar or of length n_dim, no nan density *)
Theorem C18_hdc_grid : forall n limits deltas nan,
  validate_hdc_grid n limits deltas nan = Ok <-> WellFormedHDC n limits deltas nan.
Proof. exact validate_hdc_grid_iff. Qed.

(* 2-D-only contours and the IFORM model type *)
Theorem C18_two_dimensional_only : forall k n, validate_dim2 k n = Ok <-> n = 2.
Proof. exact validate_dim2_iff. Qed.
Theorem C18_iform_model_type : forall mk, validate_iform_model mk = Ok <-> mk <> MKOther.
Proof. exact validate_iform_model_iff. Qed.

(* a whole session (slicers, model, fit, evaluation, contour) yields results iff every part is well-formed *)
Theorem C18_session : forall sc, pipeline sc = None <-> WellFormedScenario sc.
Proof. exact pipeline_iff. Qed.

(* WHERE: a session raises in the first phase whose input is ill-formed (the inputs of all earlier phases are
   well-formed, that of the raising phase is not) *)
Theorem C18_session_first_ill_formed_phase : forall sc ph t p, pipeline sc = Some (ph, t, p) ->
  phase_result sc ph = Err t p /\ ~ phase_input_ok sc ph /\
  forall ph', phase_index ph' < phase_index ph -> phase_input_ok sc ph'.
Proof. exact pipeline_first_phase. Qed.

(* exception classes: those of the property, except four rejections that surface as IndexError / AttributeError *)
Theorem C18_exception_classes : forall t,
  In (exc_of t) [ValueError; TypeError; RuntimeError; NotImplementedError] \/
  In t [EmptyModel; LimitIndex; NoIntervals; MethodNotString].
Proof. exact exception_classes. Qed.

(* non-vacuity: a well-formed 3-dimensional session is accepted; single malformations are rejected
   with the exception class and by the function the code uses *)
Definition nv_hs : desc := mkdesc true ExpWeibull [] None false [] [] (Some (mkslicer SWidth 0 [] RCenter 3)).
Definition nv_tz : desc := mkdesc true LogNormal [] (Some (CInt 0%Z)) true ["mu"; "sigma"] [] None.
Definition nv_v  : desc := mkdesc true Weibull ["gamma"] (Some (CInt 1%Z)) true ["alpha"; "beta"] [] None.
Definition nv_fit : fit_input :=
  mkfitin (Some [Some (mkfit true MWlsq WQuadratic); None; None]) 3 [7; 10; 10].
Definition nv_sc : scenario :=
  mkscenario [nv_hs; nv_tz; nv_v] (Some nv_fit) (Some (EvPdf, [[1%float; 2%float; 3%float]]))
             (Some (ReqHDC (Some [LTuple 2; LTuple 2; LTuple 2]) DScalar false)).
Example C18_nonvacuous :
  pipeline nv_sc = None /\ WellFormedScenario nv_sc /\
  observe (mkscenario [nv_hs; nv_tz; mkdesc true Weibull ["gamma"] (Some (CInt 2%Z)) true ["alpha"; "beta"] [] None]
                      None None None)
    = Some (PhModel, ValueError, GHM_check_dist_descriptions, BadHierarchy, 2) /\
  observe (mkscenario [nv_hs; nv_tz; nv_v] (Some nv_fit) (Some (EvPdf, [[1%float; nan; 3%float]])) None)
    = Some (PhEval, ValueError, GHM_pdf, NonFinitePdf, 0) /\
  observe (mkscenario [nv_hs; nv_tz; nv_v] None None (Some (Req2D COr)))
    = Some (PhContour, NotImplementedError, C2D_compute COr, Not2D COr, 0) /\
  dispatch 0 ExpWeibull [] MWlsq WArrayNonFinite = Err WeightsNonFinite 0 /\
  dispatch 0 ExpWeibull ["delta"] MLsq WCubic = Ok /\
  validate_no_nan_f [1%float; nan] = Err CumsumNan 0 /\
  validate_points_f EvEmpiricalCdf [[1%float; infinity]] = Err NonFiniteEmpiricalCdf 0.
Proof.
  assert (H : pipeline nv_sc = None) by reflexivity.
  split; [exact H|]. split; [apply pipeline_iff; exact H|]. repeat split; reflexivity.
Qed.

Print Assumptions C18_model_description.
Print Assumptions C18_ill_formed_description_rejected.
Print Assumptions C18_hierarchy.
Print Assumptions C18_reported_dimension.
Print Assumptions C18_hierarchy_refuted_without_check.
Print Assumptions C18_fit.
Print Assumptions C18_slicer_options.
Print Assumptions C18_slicing.
Print Assumptions C18_evaluation_points.
Print Assumptions C18_evaluation_points_binary64.
Print Assumptions C18_cumsum_nan.
Print Assumptions C18_hdc_grid.
Print Assumptions C18_fit_reported_dimension.
Print Assumptions C18_fit_dispatch.
Print Assumptions C18_conditional_distribution.
Print Assumptions C18_first_dimension_check_unreachable.
Print Assumptions C18_session_first_ill_formed_phase.
Print Assumptions C18_exception_classes.
Print Assumptions C18_two_dimensional_only.
Print Assumptions C18_iform_model_type.
Print Assumptions C18_session.
