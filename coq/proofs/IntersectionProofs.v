(* Lemmas for C17 over the reals: the generic model of model/Intersection.v instantiated with
   R, the arithmetic of R and the comparison decided by Rle_dec. *)
From Coq Require Import List Bool ZArith Reals Lra Psatz Lia.
From V.model Require Import Intersection.
Import ListNotations.
Local Open Scope R_scope.

Definition Rleb (a b : R) : bool := if Rle_dec a b then true else false.

Lemma Rleb_true a b : Rleb a b = true <-> a <= b.
Proof. unfold Rleb. destruct (Rle_dec a b); split; intros; auto; try discriminate; contradiction. Qed.
Lemma Rleb_false a b : Rleb a b = false <-> b < a.
Proof. unfold Rleb. destruct (Rle_dec a b); split; intros; auto; try discriminate; lra. Qed.

Notation rpt := (R * R)%type.
Notation rseg := ((R * R) * (R * R))%type.
Notation Rfmin := (fmin R Rleb).
Notation Rfmax := (fmax R Rleb).
Notation Rdet := (det R Rminus Rmult).
Notation Rbbox := (bbox_overlap R Rleb).
Notation Rsolve := (solve_pair R Rplus Rminus Rmult Rdiv Rleb IZR).
Notation Rin_range := (in_range R Rleb IZR).
Notation Rpair := (pair_result R Rplus Rminus Rmult Rdiv Rleb IZR).
Notation Rintersection := (intersection R Rplus Rminus Rmult Rdiv Rleb IZR).
Notation Rlmin := (lmin R Rleb IZR).
Notation Rlmax := (lmax R Rleb IZR).
Notation Rminl := (minl R Rleb).
Notation Rmaxl := (maxl R Rleb).
Notation Rlinspace := (linspace R Rplus Rminus Rmult Rdiv IZR).
Notation Rsteps_of := (steps_of R Rplus Rminus Rmult Rdiv Rleb IZR).
Notation Rprobe := (probe R Rplus Rminus Rmult Rdiv Rleb IZR).
Notation Rprobe_lo := (probe_lo R Rminus Rmult Rdiv Rleb IZR).
Notation Rprobe_hi := (probe_hi R Rplus Rminus Rmult Rdiv Rleb IZR).
Notation Rprobe_pad := (probe_pad R Rminus Rmult Rdiv Rleb IZR).
Notation Rdc_one := (dc_one R Rplus Rminus Rmult Rdiv Rleb IZR).
Notation Rdc_closed := (design_conditions_closed R Rplus Rminus Rmult Rdiv Rleb IZR).
Notation Rdesign_conditions := (design_conditions R Rplus Rminus Rmult Rdiv Rleb IZR).
Notation Rdefault_lower := (default_lower R Rplus Rminus Rmult Rdiv Rleb IZR).
Notation Rdefault_upper := (default_upper R Rminus Rmult Rdiv Rleb IZR).

(* ------------------------------------------------------------------ geometry vocabulary *)
(* p = a + t (b - a) for some t in [0,1] *)
Definition on_seg (s : rseg) (p : rpt) : Prop :=
  exists t, 0 <= t <= 1 /\
    fst p = fst (fst s) + t * (fst (snd s) - fst (fst s)) /\
    snd p = snd (fst s) + t * (snd (snd s) - snd (fst s)).
Definition nonparallel (s1 s2 : rseg) : Prop := Rdet s1 s2 <> 0.
Definition nonvertical (s : rseg) : Prop := fst (fst s) <> fst (snd s).
Definition on_polyline (c : list rpt) (p : rpt) : Prop := exists s, In s (segments c) /\ on_seg s p.
(* (x, y) is a crossing of the vertical line at x with the polyline *)
Definition crossing (c : list rpt) (x y : R) : Prop :=
  exists s, In s (segments c) /\ nonvertical s /\ on_seg s (x, y).

Lemma fmin_cases a b : (a <= b /\ Rfmin a b = a) \/ (b < a /\ Rfmin a b = b).
Proof. unfold fmin. destruct (Rleb a b) eqn:E; [left; apply Rleb_true in E | right; apply Rleb_false in E]; auto. Qed.
Lemma fmax_cases a b : (a <= b /\ Rfmax a b = b) \/ (b < a /\ Rfmax a b = a).
Proof. unfold fmax. destruct (Rleb a b) eqn:E; [left; apply Rleb_true in E | right; apply Rleb_false in E]; auto. Qed.

Lemma between a b t : 0 <= t <= 1 -> Rfmin a b <= a + t * (b - a) <= Rfmax a b.
Proof. intros Ht. destruct (fmin_cases a b) as [[H1 ->]|[H1 ->]], (fmax_cases a b) as [[H2 ->]|[H2 ->]]; split; nra. Qed.

Lemma eqb_false_iff a : eqb R Rleb a (zero R IZR) = false <-> a <> 0.
Proof.
  unfold eqb, zero. split.
  - intros H E. subst a. assert (Rleb 0 0 = true) by (apply Rleb_true; lra). rewrite H0 in H. discriminate.
  - intros H. destruct (Rleb a 0) eqn:E1; [|reflexivity]. destruct (Rleb 0 a) eqn:E2; [|reflexivity].
    apply Rleb_true in E1, E2. exfalso. apply H. lra.
Qed.

Lemma in_range_iff t : Rin_range t = true <-> 0 <= t <= 1.
Proof. unfold in_range, zero, one. rewrite andb_true_iff, !Rleb_true. tauto. Qed.

(* ------------------------------------------------------------------ one pair of segments *)
(* (a) soundness and (b) completeness in one statement: the pair contributes p iff the carriers
   are not parallel and p lies on both segments *)
Lemma pair_result_spec s1 s2 p :
  In p (Rpair s1 s2) <-> nonparallel s1 s2 /\ on_seg s1 p /\ on_seg s2 p.
Proof.
  destruct s1 as [[ax ay] [bx by_]], s2 as [[cx cy] [dx dy]], p as [px py].
  unfold pair_result, nonparallel, on_seg. cbn [fst snd].
  split.
  - destruct (Rbbox _ _); [|intros []].
    unfold solve_pair. cbn [det].
    destruct (eqb R Rleb _ _) eqn:ED; [intros []|]. apply eqb_false_iff in ED.
    destruct (Rin_range _ && Rin_range _) eqn:E12; [|intros []].
    apply andb_true_iff in E12. destruct E12 as [E1 E2]. cbn [In]. intros [E|[]]. inversion E; subst px py; clear E.
    apply in_range_iff in E1, E2. split; [exact ED|]. split.
    + eexists. split; [exact E1|]. split; reflexivity.
    + eexists. split; [exact E2|]. split; field; exact ED.
  - intros [HD [[t [Ht [Hx1 Hy1]]] [u [Hu [Hx2 Hy2]]]]]. cbn [det] in HD.
    assert (HB : Rbbox (ax, ay, (bx, by_)) (cx, cy, (dx, dy)) = true).
    { unfold bbox_overlap. rewrite !andb_true_iff, !Rleb_true.
      pose proof (between ax bx t Ht). pose proof (between cx dx u Hu).
      pose proof (between ay by_ t Ht). pose proof (between cy dy u Hu).
      repeat split; lra. }
    rewrite HB. unfold solve_pair. cbn [det].
    set (D := (dx - cx) * (by_ - ay) - (bx - ax) * (dy - cy)) in *.
    destruct (eqb R Rleb D (zero R IZR)) eqn:ED.
    { rewrite (proj2 (eqb_false_iff D) HD) in ED. discriminate. }
    assert (X : cx - ax = t * (bx - ax) - u * (dx - cx)) by lra.
    assert (Y : cy - ay = t * (by_ - ay) - u * (dy - cy)) by lra.
    assert (Et : t * D = (dx - cx) * (cy - ay) - (dy - cy) * (cx - ax)) by (unfold D; rewrite X, Y; ring).
    assert (Eu : u * D = (bx - ax) * (cy - ay) - (by_ - ay) * (cx - ax)) by (unfold D; rewrite X, Y; ring).
    assert (T1 : ((dx - cx) * (cy - ay) - (dy - cy) * (cx - ax)) / D = t) by (rewrite <- Et; field; exact HD).
    assert (T2 : ((bx - ax) * (cy - ay) - (by_ - ay) * (cx - ax)) / D = u) by (rewrite <- Eu; field; exact HD).
    rewrite T1, T2.
    rewrite (proj2 (in_range_iff t) Ht), (proj2 (in_range_iff u) Hu). cbn [andb In].
    left. rewrite Hx1, Hy1. reflexivity.
Qed.

(* the pair contributes at most one point; exactly one iff the segments cross non-parallel *)
Lemma pair_result_shape s1 s2 : Rpair s1 s2 = [] \/ exists p, Rpair s1 s2 = [p].
Proof.
  unfold pair_result. destruct (Rbbox s1 s2); auto. destruct (Rsolve s1 s2) as [[[t1 t2] p]|]; auto.
  destruct (Rin_range t1 && Rin_range t2); eauto.
Qed.

Lemma pair_result_parallel s1 s2 : Rdet s1 s2 = 0 -> Rpair s1 s2 = [].
Proof.
  intros H. destruct (pair_result_shape s1 s2) as [E|[p E]]; auto.
  assert (I : In p (Rpair s1 s2)) by (rewrite E; left; reflexivity).
  apply pair_result_spec in I. destruct I as [I _]. contradiction.
Qed.

(* ------------------------------------------------------------------ the whole routine *)
Theorem intersection_spec c1 c2 p :
  In p (Rintersection c1 c2) <->
  exists s1 s2, In s1 (segments c1) /\ In s2 (segments c2) /\ nonparallel s1 s2 /\ on_seg s1 p /\ on_seg s2 p.
Proof.
  unfold intersection. rewrite in_flat_map. split.
  - intros [s1 [H1 H]]. apply in_flat_map in H. destruct H as [s2 [H2 H]].
    apply pair_result_spec in H. exists s1, s2. tauto.
  - intros [s1 [s2 [H1 [H2 H]]]]. exists s1. split; auto. apply in_flat_map. exists s2. split; auto.
    apply pair_result_spec. exact H.
Qed.

(* segment i of a polyline joins vertex i and vertex i+1 *)
Lemma segments_nth {F} (c : list (F * F)) i d : (S i < length c)%nat ->
  nth_error (segments c) i = Some (nth i c d, nth (S i) c d).
Proof.
  revert i. induction c as [|a c IH]; intros i H; [simpl in H; lia|].
  destruct c as [|b c]; [simpl in H; lia|].
  destruct i as [|i]; [reflexivity|].
  change (segments (a :: b :: c)) with ((a, b) :: segments (b :: c)).
  cbn [nth_error]. rewrite IH by (cbn [length] in *; lia). reflexivity.
Qed.

Lemma segments_length {F} (c : list (F * F)) : length (segments c) = (length c - 1)%nat.
Proof.
  induction c as [|a c IH]; [reflexivity|]. destruct c as [|b c]; [reflexivity|].
  change (segments (a :: b :: c)) with ((a, b) :: segments (b :: c)). cbn [length] in *. rewrite IH. lia.
Qed.

Lemma segments_vertices {F} (c : list (F * F)) s : In s (segments c) -> In (fst s) c /\ In (snd s) c.
Proof.
  induction c as [|a c IH]; [intros []|]. destruct c as [|b c]; [intros []|].
  change (segments (a :: b :: c)) with ((a, b) :: segments (b :: c)).
  intros [<-|H]; cbn [fst snd].
  - split; [left|right; left]; reflexivity.
  - destruct (IH H). split; right; assumption.
Qed.

Lemma segments_app_one {F} (c : list (F * F)) (a z : F * F) :
  segments ((a :: c) ++ [z]) = segments (a :: c) ++ [(last (a :: c) a, z)].
Proof.
  revert a. induction c as [|b c IH]; intros a; [reflexivity|].
  change ((a :: b :: c) ++ [z]) with (a :: ((b :: c) ++ [z])).
  change (segments (a :: (b :: c) ++ [z])) with ((a, b) :: segments ((b :: c) ++ [z])).
  rewrite IH. change (segments (a :: b :: c)) with ((a, b) :: segments (b :: c)).
  change (last (a :: b :: c) a) with (last (b :: c) a).
  assert (E : forall (l : list (F * F)) x y, l <> [] -> last l x = last l y).
  { induction l as [|h l IHl]; intros x y Hn; [congruence|]. destruct l; [reflexivity|]. apply IHl. congruence. }
  rewrite (E (b :: c) a b) by congruence. reflexivity.
Qed.

(* ------------------------------------------------------------------ min / max of lists *)
Lemma minl_le d l : Rminl d l <= d /\ forall y, In y l -> Rminl d l <= y.
Proof.
  revert d. induction l as [|a l IH]; intros d; cbn [minl fold_left]; [split; [lra|intros ? []]|].
  destruct (IH (Rfmin d a)) as [H1 H2]. fold (Rminl (Rfmin d a) l) in *.
  destruct (fmin_cases d a) as [[Hc E]|[Hc E]]; rewrite E in *; (split; [lra|]); intros y [<-|Hy]; try lra; apply H2 in Hy; lra.
Qed.
Lemma maxl_ge d l : d <= Rmaxl d l /\ forall y, In y l -> y <= Rmaxl d l.
Proof.
  revert d. induction l as [|a l IH]; intros d; cbn [maxl fold_left]; [split; [lra|intros ? []]|].
  destruct (IH (Rfmax d a)) as [H1 H2]. fold (Rmaxl (Rfmax d a) l) in *.
  destruct (fmax_cases d a) as [[Hc E]|[Hc E]]; rewrite E in *; (split; [lra|]); intros y [<-|Hy]; try lra; apply H2 in Hy; lra.
Qed.
Lemma maxl_in d l : In (Rmaxl d l) (d :: l).
Proof.
  revert d. induction l as [|a l IH]; intros d; cbn [maxl fold_left]; [left; reflexivity|].
  fold (Rmaxl (Rfmax d a) l). destruct (IH (Rfmax d a)) as [E|H].
  - rewrite <- E. destruct (fmax_cases d a) as [[_ ->]|[_ ->]]; [right; left|left]; reflexivity.
  - right. right. exact H.
Qed.

Lemma lmin_le l y : In y l -> Rlmin l <= y.
Proof. destruct l as [|a l]; [intros []|]. cbn [lmin]. destruct (minl_le a l) as [H1 H2]. intros [<-|H]; auto. Qed.
Lemma lmax_ge l y : In y l -> y <= Rlmax l.
Proof. destruct l as [|a l]; [intros []|]. cbn [lmax]. destruct (maxl_ge a l) as [H1 H2]. intros [<-|H]; auto. Qed.

(* ------------------------------------------------------------------ one abscissa *)
Lemma lmin_le_lmax l : Rlmin l <= Rlmax l.
Proof.
  destruct l as [|a l]; [unfold lmin, lmax, zero; lra|].
  pose proof (lmin_le (a :: l) a (or_introl eq_refl)). pose proof (lmax_ge (a :: l) a (or_introl eq_refl)). lra.
Qed.

Lemma fabs_cases a : (0 <= a /\ fabs R Rminus Rleb IZR a = a) \/ (a < 0 /\ fabs R Rminus Rleb IZR a = - a).
Proof.
  unfold fabs, zero. destruct (Rleb 0 a) eqn:E; [left; apply Rleb_true in E; auto|right; apply Rleb_false in E; split; [exact E|ring]].
Qed.

Section OneAbscissa.
  Variable cl : list rpt.
  (* the ordinates are not all zero (forced: for a polygon lying flat ON the axis the probe segment is
     degenerate, every 4x4 system is singular and every abscissa is omitted) *)
  Hypothesis Hext : Rlmin (map snd cl) < Rlmax (map snd cl) \/ Rlmax (map snd cl) <> 0.

  Lemma probe_wide : Rprobe_lo cl <= Rlmin (map snd cl) /\ Rlmax (map snd cl) <= Rprobe_hi cl /\ Rprobe_lo cl < Rprobe_hi cl.
  Proof.
    unfold probe_lo, probe_hi, probe_pad, one. pose proof (lmin_le_lmax (map snd cl)) as L.
    set (lo := Rlmin (map snd cl)) in *. set (hi := Rlmax (map snd cl)) in *.
    destruct (fabs_cases lo) as [[A1 ->]|[A1 ->]], (fabs_cases hi) as [[A2 ->]|[A2 ->]];
      match goal with |- context [Rfmax ?a ?b] => destruct (fmax_cases a b) as [[M ->]|[M ->]] end;
      destruct Hext as [H|H]; repeat split; lra.
  Qed.

  Lemma on_seg_ordinate_in_probe s x y : In s (segments cl) -> on_seg s (x, y) ->
    Rprobe_lo cl <= y <= Rprobe_hi cl.
  Proof.
    intros Hs [t [Ht [_ Hy]]]. cbn [fst snd] in Hy.
    destruct (segments_vertices cl s Hs) as [Ha Hb].
    pose proof (lmin_le (map snd cl) _ (in_map snd _ _ Ha)). pose proof (lmax_ge (map snd cl) _ (in_map snd _ _ Ha)).
    pose proof (lmin_le (map snd cl) _ (in_map snd _ _ Hb)). pose proof (lmax_ge (map snd cl) _ (in_map snd _ _ Hb)).
    pose proof (between (snd (fst s)) (snd (snd s)) t Ht) as B. rewrite <- Hy in B.
    destruct (fmin_cases (snd (fst s)) (snd (snd s))) as [[_ E1]|[_ E1]], (fmax_cases (snd (fst s)) (snd (snd s))) as [[_ E2]|[_ E2]];
      rewrite E1, E2 in B; destruct probe_wide as [? [? ?]]; lra.
  Qed.

  Lemma segments_probe x : segments (Rprobe cl x) = [((x, Rprobe_lo cl), (x, Rprobe_hi cl))].
  Proof. reflexivity. Qed.

  (* what the routine returns for the probe at x is exactly the set of crossings at x *)
  Lemma probe_hits x p :
    In p (Rintersection cl (Rprobe cl x)) <-> fst p = x /\ crossing cl x (snd p).
  Proof.
    rewrite intersection_spec. destruct probe_wide as [W1 [W2 W3]]. split.
    - intros [s1 [s2 [H1 [H2 [HD [O1 O2]]]]]]. rewrite segments_probe in H2. destruct H2 as [<-|[]].
      destruct O2 as [u [Hu [Hx _]]]. cbn [fst snd] in Hx.
      assert (Ex : fst p = x) by lra. split; [exact Ex|].
      exists s1. split; [exact H1|]. split.
      + unfold nonparallel in HD. destruct s1 as [[ax ay] [bx by_]]. cbn [det] in HD. unfold nonvertical. cbn [fst snd].
        intros E. apply HD. rewrite E. ring.
      + destruct p as [px py]. cbn [fst snd] in *. clear Hx. subst px. exact O1.
    - intros [Ex [s1 [H1 [HV O1]]]]. destruct p as [px py]. cbn [fst snd] in *. subst px.
      exists s1, ((x, Rprobe_lo cl), (x, Rprobe_hi cl)). split; [exact H1|]. split; [rewrite segments_probe; left; reflexivity|].
      pose proof (on_seg_ordinate_in_probe s1 x py H1 O1) as [P1 P2].
      split; [|split; [exact O1|]].
      + unfold nonparallel. destruct s1 as [[ax ay] [bx by_]]. cbn [det]. unfold nonvertical in HV. cbn [fst snd] in HV.
        intros E. apply HV. assert (Z : (bx - ax) * (Rprobe_hi cl - Rprobe_lo cl) = 0) by lra.
        apply Rmult_integral in Z. destruct Z; lra.
      + exists ((py - Rprobe_lo cl) / (Rprobe_hi cl - Rprobe_lo cl)). cbn [fst snd].
        assert (Hp : 0 < Rprobe_hi cl - Rprobe_lo cl) by lra.
        split; [split|split].
        * apply Rmult_le_pos; [lra|]. apply Rlt_le, Rinv_0_lt_compat. exact Hp.
        * apply (Rmult_le_reg_r (Rprobe_hi cl - Rprobe_lo cl)); [exact Hp|]. unfold Rdiv. rewrite Rmult_assoc, Rinv_l by lra. lra.
        * ring.
        * field. lra.
  Qed.

  (* omitted iff the vertical line at x crosses no (non-vertical) edge *)
  Lemma dc_one_nil x : Rdc_one cl x = [] <-> ~ exists y, crossing cl x y.
  Proof.
    unfold dc_one. split.
    - intros H [y Hy]. assert (I : In (x, y) (Rintersection cl (Rprobe cl x))) by (apply probe_hits; auto).
      apply (in_map snd) in I. destruct (map snd (Rintersection cl (Rprobe cl x))); [exact I|discriminate].
    - intros H. destruct (Rintersection cl (Rprobe cl x)) as [|p l] eqn:E; [reflexivity|]. exfalso. apply H.
      assert (I : In p (Rintersection cl (Rprobe cl x))) by (rewrite E; left; reflexivity).
      apply probe_hits in I. exists (snd p). tauto.
  Qed.

  (* kept: abscissa as requested, a crossing, and the top one *)
  Lemma dc_one_cons x q l : Rdc_one cl x = q :: l ->
    l = [] /\ fst q = x /\ crossing cl x (snd q) /\ forall y, crossing cl x y -> y <= snd q.
  Proof.
    unfold dc_one. destruct (map snd (Rintersection cl (Rprobe cl x))) as [|y0 ys] eqn:E; [discriminate|].
    intros H. inversion H; subst q l; clear H. cbn [fst snd]. split; [reflexivity|]. split; [reflexivity|].
    assert (M : forall y, In y (y0 :: ys) <-> crossing cl x y).
    { intros y. rewrite <- E. rewrite in_map_iff. split.
      - intros [p [<- I]]. apply probe_hits in I. tauto.
      - intros C. exists (x, y). split; [reflexivity|]. apply probe_hits. auto. }
    split.
    - apply M. apply maxl_in.
    - intros y C. apply M in C. destruct (maxl_ge y0 ys) as [G1 G2]. destruct C as [<-|C]; auto.
  Qed.
End OneAbscissa.

(* ------------------------------------------------------------------ all abscissae, in order *)
(* the full functional specification of the result list *)
Inductive dc_rel (cl : list rpt) : list R -> list rpt -> Prop :=
| dc_nil : dc_rel cl [] []
| dc_skip x xs r : (~ exists y, crossing cl x y) -> dc_rel cl xs r -> dc_rel cl (x :: xs) r
| dc_keep x xs y r : crossing cl x y -> (forall y', crossing cl x y' -> y' <= y) ->
                     dc_rel cl xs r -> dc_rel cl (x :: xs) ((x, y) :: r).

Lemma dc_rel_flat_map cl xs : Rlmin (map snd cl) < Rlmax (map snd cl) \/ Rlmax (map snd cl) <> 0 ->
  dc_rel cl xs (flat_map (Rdc_one cl) xs).
Proof.
  intros Hext. induction xs as [|x xs IH]; [constructor|]. cbn [flat_map].
  destruct (Rdc_one cl x) as [|q l] eqn:E.
  - apply dc_skip; [apply (dc_one_nil cl Hext); exact E|exact IH].
  - destruct (dc_one_cons cl Hext x q l E) as [-> [Hx [Hc Hm]]]. destruct q as [qx qy]. cbn [fst snd] in *. subst qx.
    cbn [app]. apply dc_keep; auto.
Qed.

Theorem design_conditions_rel cl st : Rlmin (map snd cl) < Rlmax (map snd cl) \/ Rlmax (map snd cl) <> 0 ->
  dc_rel cl (Rsteps_of cl st) (Rdc_closed cl st).
Proof. intros H. unfold design_conditions_closed. apply dc_rel_flat_map. exact H. Qed.

(* consequences of the relational specification, in the words of the property *)
Lemma dc_rel_in cl xs r q : dc_rel cl xs r -> In q r ->
  In (fst q) xs /\ on_polyline cl q /\ crossing cl (fst q) (snd q) /\ forall y, crossing cl (fst q) y -> y <= snd q.
Proof.
  induction 1 as [|x xs r Hn Hr IH|x xs y r Hc Hm Hr IH]; intros I; [destruct I| |].
  - destruct (IH I) as [A B]. split; [right; exact A|exact B].
  - destruct I as [<-|I].
    + cbn [fst snd]. split; [left; reflexivity|]. split; [|split; assumption].
      destruct Hc as [s [Hs [_ Ho]]]. exists s. auto.
    + destruct (IH I) as [A B]. split; [right; exact A|exact B].
Qed.

Lemma dc_rel_omitted cl xs r : dc_rel cl xs r ->
  forall x, In x xs -> (In x (map fst r) <-> exists y, crossing cl x y).
Proof.
  induction 1 as [|x0 xs r Hn Hr IH|x0 xs y r Hc Hm Hr IH]; intros x I; [destruct I| |].
  - destruct I as [<-|I].
    + split; [|intros H; contradiction]. intros J.
      (* x0 appears later in xs as well: then it has a crossing after all *)
      apply in_map_iff in J. destruct J as [q [<- J]].
      destruct (dc_rel_in cl xs r q Hr J) as [_ [_ [C _]]]. eauto.
    + apply IH. exact I.
  - cbn [map fst In]. destruct I as [<-|I].
    + split; [eauto|]. intros _. left. reflexivity.
    + split.
      * intros [<-|J]; [eauto|]. apply IH; assumption.
      * intros H. right. apply IH; assumption.
Qed.

(* order: the abscissae of the result are a sub-sequence of the requested abscissae *)
Inductive sublist {A} : list A -> list A -> Prop :=
| sub_nil : sublist [] []
| sub_skip x l r : sublist l r -> sublist (x :: l) r
| sub_keep x l r : sublist l r -> sublist (x :: l) (x :: r).
Lemma dc_rel_sublist cl xs r : dc_rel cl xs r -> sublist xs (map fst r).
Proof. induction 1; cbn [map fst]; constructor; assumption. Qed.

(* the result is determined by the specification *)
Lemma dc_rel_unique cl xs r1 r2 : dc_rel cl xs r1 -> dc_rel cl xs r2 -> r1 = r2.
Proof.
  intros H1. revert r2. induction H1 as [|x xs r Hn Hr IH|x xs y r Hc Hm Hr IH]; intros r2 H2; inversion H2; subst; auto.
  - exfalso. apply Hn. eauto.
  - exfalso. match goal with H : ~ _ |- _ => apply H end. eauto.
  - f_equal; [|apply IH; assumption].
    match goal with H1 : crossing cl x ?y2, H2 : forall y', crossing cl x y' -> y' <= ?y2 |- _ =>
      pose proof (Hm _ H1); pose proof (H2 _ Hc); f_equal; lra end.
Qed.

(* ------------------------------------------------------------------ closing, swap_axis *)
Lemma closed_of_cons swap (p0 : rpt) tl :
  closed_of R swap (p0 :: tl) = map (proj swap) (p0 :: tl) ++ [proj swap p0].
Proof. reflexivity. Qed.

(* the edges of the closed polygon: the consecutive vertex pairs and the closing edge last -> first *)
Lemma closed_segments (p0 : rpt) tl :
  segments (closed_of R false (p0 :: tl)) = segments (p0 :: tl) ++ [(last (p0 :: tl) p0, p0)].
Proof.
  rewrite closed_of_cons. assert (E : map (proj false) (p0 :: tl) = p0 :: tl).
  { clear. induction (p0 :: tl) as [|a l IH]; [reflexivity|]. cbn [map proj]. rewrite IH. reflexivity. }
  rewrite E. cbn [proj]. apply segments_app_one.
Qed.

Definition swap_pt (p : rpt) : rpt := (snd p, fst p).

Lemma closed_of_swap coords : closed_of R true coords = closed_of R false (map swap_pt coords).
Proof.
  unfold closed_of. rewrite map_map.
  assert (E : map (proj true) coords = map (fun x => proj false (swap_pt x)) coords) by (apply map_ext; intros [a b]; reflexivity).
  rewrite E. reflexivity.
Qed.

Theorem design_conditions_swap coords st :
  Rdesign_conditions true coords st = Rdesign_conditions false (map swap_pt coords) st.
Proof. unfold design_conditions. rewrite closed_of_swap. reflexivity. Qed.

(* ------------------------------------------------------------------ default abscissae *)
Lemma linspace_length lo hi n : length (Rlinspace lo hi n) = n.
Proof. destruct n as [|[|m]]; [reflexivity|reflexivity|]. unfold linspace. rewrite map_length, seq_length. reflexivity. Qed.

Lemma linspace_nth lo hi m i : (i <= S m)%nat ->
  nth i (Rlinspace lo hi (S (S m))) 0 = lo + INR i * ((hi - lo) / INR (S m)).
Proof.
  intros Hi. unfold linspace.
  rewrite (nth_indep _ 0 ((fun i => lo + IZR (Z.of_nat i) * ((hi - lo) / IZR (Z.of_nat (S m)))) 0%nat))
    by (rewrite map_length, seq_length; lia).
  rewrite (map_nth (fun i => lo + IZR (Z.of_nat i) * ((hi - lo) / IZR (Z.of_nat (S m))))).
  rewrite seq_nth by lia. cbn [Nat.add]. rewrite <- !INR_IZR_INZ. reflexivity.
Qed.

Lemma linspace_first lo hi m : nth 0 (Rlinspace lo hi (S (S m))) 0 = lo.
Proof. rewrite linspace_nth by lia. cbn [INR]. ring. Qed.

Lemma linspace_last lo hi m : nth (S m) (Rlinspace lo hi (S (S m))) 0 = hi.
Proof.
  rewrite linspace_nth by lia. assert (0 < INR (S m)) by (apply lt_0_INR; lia). field. lra.
Qed.

Lemma linspace_between lo hi n x : lo <= hi -> In x (Rlinspace lo hi n) -> lo <= x <= hi.
Proof.
  intros Hle. destruct n as [|[|m]]; [intros []|intros [<-|[]]; lra|].
  intros I. apply (In_nth _ _ 0) in I. destruct I as [i [Hi <-]]. rewrite linspace_length in Hi.
  rewrite linspace_nth by lia.
  assert (P : 0 < INR (S m)) by (apply lt_0_INR; lia).
  assert (Q : 0 <= INR i <= INR (S m)) by (split; [apply pos_INR|apply le_INR; lia]).
  assert (E : INR i * ((hi - lo) / INR (S m)) = (INR i / INR (S m)) * (hi - lo)) by (field; lra).
  rewrite E.
  assert (F1 : 0 <= INR i / INR (S m)) by (apply Rmult_le_pos; [lra|apply Rlt_le, Rinv_0_lt_compat; exact P]).
  assert (F2 : INR i / INR (S m) <= 1).
  { apply (Rmult_le_reg_r (INR (S m))); [exact P|]. unfold Rdiv. rewrite Rmult_assoc, Rinv_l by lra. lra. }
  nra.
Qed.

(* evenly spaced *)
Lemma linspace_step lo hi m i : (i < S m)%nat ->
  nth (S i) (Rlinspace lo hi (S (S m))) 0 - nth i (Rlinspace lo hi (S (S m))) 0 = (hi - lo) / INR (S m).
Proof.
  intros Hi. rewrite !linspace_nth by lia. rewrite S_INR.
  assert (0 < INR (S m)) by (apply lt_0_INR; lia). field. lra.
Qed.

Lemma default_limits cl :
  let xmin := Rlmin (map fst cl) in let xmax := Rlmax (map fst cl) in
  Rdefault_lower cl = xmin + (xmax - xmin) / 10000 /\ Rdefault_upper cl = xmax - (xmax - xmin) / 10000.
Proof. unfold default_lower, default_upper, small_spacer, one. cbv zeta. split; field. Qed.

Lemma steps_default cl : Rsteps_of cl StepsDefault = Rlinspace (Rdefault_lower cl) (Rdefault_upper cl) 10.
Proof. reflexivity. Qed.
Lemma steps_num cl n : Rsteps_of cl (StepsNum n) = Rlinspace (Rdefault_lower cl) (Rdefault_upper cl) n.
Proof. reflexivity. Qed.
Lemma steps_list cl l : Rsteps_of cl (StepsList l) = l.
Proof. reflexivity. Qed.

(* the default abscissae span the extent: n evenly spaced values from xmin + eps to xmax - eps *)
Lemma default_abscissae : forall cl m,
  let xmin := Rlmin (map fst cl) in let xmax := Rlmax (map fst cl) in
  let lo := xmin + (xmax - xmin) / 10000 in let hi := xmax - (xmax - xmin) / 10000 in
  let n := S (S m) in
  let xs := Rsteps_of cl (StepsNum n) in
  Rsteps_of cl StepsDefault = Rsteps_of cl (StepsNum 10) /\
  length xs = n /\ nth 0 xs 0 = lo /\ nth (S m) xs 0 = hi /\
  (forall i, (i < S m)%nat -> nth (S i) xs 0 - nth i xs 0 = (hi - lo) / INR (S m)) /\
  (lo <= hi -> forall x, In x xs -> lo <= x <= hi) /\
  (forall l, Rsteps_of cl (StepsList l) = l).
Proof.
  intros cl m xmin xmax lo hi n xs. destruct (default_limits cl) as [E1 E2]. fold xmin xmax in E1, E2.
  split; [reflexivity|].
  subst xs. rewrite steps_num. fold lo in E1. fold hi in E2. rewrite E1, E2.
  split; [apply linspace_length|]. split; [apply linspace_first|]. split; [apply linspace_last|].
  split; [intros i Hi; apply linspace_step; exact Hi|]. split; [intros Hle x Hx; exact (linspace_between lo hi n x Hle Hx)|].
  reflexivity.
Qed.

(* ================================================================== audit round: further behaviour *)

(* ---- an integer count is the list of the default abscissae; lists concatenate pointwise *)
Lemma count_is_list sw coords n :
  Rdesign_conditions sw coords (StepsNum n) =
  Rdesign_conditions sw coords (StepsList (Rsteps_of (closed_of R sw coords) (StepsNum n))).
Proof. reflexivity. Qed.
Lemma default_is_ten sw coords : Rdesign_conditions sw coords StepsDefault = Rdesign_conditions sw coords (StepsNum 10).
Proof. reflexivity. Qed.
Lemma dc_list_app cl l1 l2 : Rdc_closed cl (StepsList (l1 ++ l2)) = Rdc_closed cl (StepsList l1) ++ Rdc_closed cl (StepsList l2).
Proof. unfold design_conditions_closed. cbn [steps_of]. apply flat_map_app. Qed.
Lemma dc_list_nil cl : Rdc_closed cl (StepsList []) = [].
Proof. reflexivity. Qed.
Lemma small_counts cl : Rsteps_of cl (StepsNum 0) = [] /\ Rsteps_of cl (StepsNum 1) = [Rdefault_lower cl].
Proof. split; reflexivity. Qed.

(* ---- duplicated consecutive vertices (zero-length segments) change nothing *)
Lemma segments_app {F} (a : list (F * F)) p b : segments (a ++ p :: b) = segments (a ++ [p]) ++ segments (p :: b).
Proof.
  induction a as [|q a IH]; [reflexivity|]. destruct a as [|r a].
  - cbn [app]. change (segments (q :: p :: b)) with ((q, p) :: segments (p :: b)). reflexivity.
  - change ((q :: r :: a) ++ p :: b) with (q :: (r :: a) ++ p :: b).
    change ((r :: a) ++ p :: b) with (r :: (a ++ p :: b)) in *.
    change (segments (q :: r :: a ++ p :: b)) with ((q, r) :: segments (r :: a ++ p :: b)).
    rewrite IH. reflexivity.
Qed.

Lemma degenerate_left p s2 : Rpair (p, p) s2 = [].
Proof. apply pair_result_parallel. destruct p as [x y], s2 as [[cx cy] [dx dy]]. cbn [det]. ring. Qed.
Lemma degenerate_right s1 p : Rpair s1 (p, p) = [].
Proof. apply pair_result_parallel. destruct p as [x y], s1 as [[ax ay] [bx by_]]. cbn [det]. ring. Qed.

Lemma duplicate_vertex_left a p b c2 : Rintersection (a ++ p :: p :: b) c2 = Rintersection (a ++ p :: b) c2.
Proof.
  unfold intersection. rewrite (segments_app a p (p :: b)), (segments_app a p b).
  change (segments (p :: p :: b)) with ((p, p) :: segments (p :: b)).
  rewrite !flat_map_app. f_equal. cbn [flat_map].
  assert (E : flat_map (fun s2 => Rpair (p, p) s2) (segments c2) = []).
  { induction (segments c2) as [|s l IH]; [reflexivity|]. cbn [flat_map]. rewrite degenerate_left, IH. reflexivity. }
  rewrite E. reflexivity.
Qed.

Lemma duplicate_vertex_right c1 a p b : Rintersection c1 (a ++ p :: p :: b) = Rintersection c1 (a ++ p :: b).
Proof.
  unfold intersection. apply flat_map_ext. intros s1.
  rewrite (segments_app a p (p :: b)), (segments_app a p b).
  change (segments (p :: p :: b)) with ((p, p) :: segments (p :: b)).
  rewrite !flat_map_app. f_equal. cbn [flat_map]. rewrite degenerate_right. reflexivity.
Qed.

(* ---- the routine is symmetric in its two curves (as a set of points) *)
Lemma nonparallel_sym s1 s2 : nonparallel s1 s2 -> nonparallel s2 s1.
Proof.
  unfold nonparallel. destruct s1 as [[ax ay] [bx by_]], s2 as [[cx cy] [dx dy]]. cbn [det]. intros H E. apply H. lra.
Qed.
Lemma intersection_sym c1 c2 p : In p (Rintersection c1 c2) <-> In p (Rintersection c2 c1).
Proof.
  rewrite !intersection_spec. split; intros [s1 [s2 [H1 [H2 [H3 [H4 H5]]]]]]; exists s2, s1; repeat split; auto; apply nonparallel_sym; exact H3.
Qed.

(* ---- abscissae outside the extent never cross; abscissae strictly inside always do (general position) *)
Lemma crossing_in_extent cl x y : crossing cl x y -> Rlmin (map fst cl) <= x <= Rlmax (map fst cl).
Proof.
  intros [s [Hs [_ [t [Ht [Hx _]]]]]]. cbn [fst snd] in Hx.
  destruct (segments_vertices cl s Hs) as [Ha Hb].
  pose proof (lmin_le (map fst cl) _ (in_map fst _ _ Ha)). pose proof (lmax_ge (map fst cl) _ (in_map fst _ _ Ha)).
  pose proof (lmin_le (map fst cl) _ (in_map fst _ _ Hb)). pose proof (lmax_ge (map fst cl) _ (in_map fst _ _ Hb)).
  pose proof (between (fst (fst s)) (fst (snd s)) t Ht) as B. rewrite <- Hx in B.
  destruct (fmin_cases (fst (fst s)) (fst (snd s))) as [[_ E1]|[_ E1]], (fmax_cases (fst (fst s)) (fst (snd s))) as [[_ E2]|[_ E2]];
    rewrite E1, E2 in B; lra.
Qed.

Lemma outside_extent_no_crossing cl x : x < Rlmin (map fst cl) \/ Rlmax (map fst cl) < x -> ~ exists y, crossing cl x y.
Proof. intros H [y C]. apply crossing_in_extent in C. lra. Qed.

(* discrete intermediate value: a polyline with a vertex left of x and a vertex right of x has an edge that straddles x *)
Lemma straddle (x : R) : forall (l : list rpt),
  (exists v, In v l /\ fst v < x) -> (exists v, In v l /\ x < fst v) ->
  exists s, In s (segments l) /\ ((fst (fst s) < x /\ x <= fst (snd s)) \/ (x <= fst (fst s) /\ fst (snd s) < x) \/
                                  (fst (fst s) <= x /\ x < fst (snd s)) \/ (x < fst (fst s) /\ fst (snd s) <= x)).
Proof.
  induction l as [|a l IH]; intros [v [Hv Lv]] [w [Hw Lw]]; [destruct Hv|].
  destruct l as [|b l]; [destruct Hv as [<-|[]], Hw as [<-|[]]; lra|].
  change (segments (a :: b :: l)) with ((a, b) :: segments (b :: l)).
  destruct (Rlt_dec (fst a) x) as [A|A]; [destruct (Rlt_dec (fst b) x) as [B|B]|destruct (Rlt_dec x (fst b)) as [B|B]].
  - (* a, b left: a vertex right of x is in b :: l *)
    destruct IH as [s [Hs C]]; [exists b; split; [left; reflexivity|exact B]| |exists s; split; [right; exact Hs|exact C]].
    destruct Hw as [<-|Hw]; [lra|]. exists w. split; assumption.
  - exists (a, b). split; [left; reflexivity|]. cbn [fst snd]. left. split; lra.
  - destruct (Rlt_dec x (fst a)) as [A'|A'].
    + (* a right, b right *)
      destruct IH as [s [Hs C]]; [|exists b; split; [left; reflexivity|exact B]|exists s; split; [right; exact Hs|exact C]].
      destruct Hv as [<-|Hv]; [lra|]. exists v. split; assumption.
    + (* fst a = x, b right of x *)
      exists (a, b). split; [left; reflexivity|]. cbn [fst snd]. right. right. left. split; lra.
  - destruct (Rlt_dec x (fst a)) as [A'|A'].
    + exists (a, b). split; [left; reflexivity|]. cbn [fst snd]. right. right. right. split; lra.
    + (* fst a = x, fst b <= x *)
      destruct (Rlt_dec (fst b) x) as [B'|B'].
      * exists (a, b). split; [left; reflexivity|]. cbn [fst snd]. right. left. split; lra.
      * (* both equal x: recurse *)
        destruct IH as [s [Hs C]]; [| |exists s; split; [right; exact Hs|exact C]].
        -- destruct Hv as [<-|Hv]; [lra|]. exists v. split; assumption.
        -- destruct Hw as [<-|Hw]; [lra|]. exists w. split; assumption.
Qed.

Lemma inside_extent_crossing cl x :
  (exists v, In v cl /\ fst v < x) -> (exists v, In v cl /\ x < fst v) -> exists y, crossing cl x y.
Proof.
  intros HL HR. destruct (straddle x cl HL HR) as [[[ax ay] [bx by_]] [Hs C]]. cbn [fst snd] in C.
  assert (NV : ax <> bx) by (destruct C as [C|[C|[C|C]]]; lra).
  exists (ay + (x - ax) / (bx - ax) * (by_ - ay)). exists ((ax, ay), (bx, by_)). split; [exact Hs|]. split; [exact NV|].
  exists ((x - ax) / (bx - ax)). cbn [fst snd]. split; [|split; [field; lra|reflexivity]].
  destruct (Rlt_dec ax bx) as [L|L].
  - assert (P : 0 < bx - ax) by lra. split.
    + apply Rmult_le_pos; [destruct C as [C|[C|[C|C]]]; lra|apply Rlt_le, Rinv_0_lt_compat; exact P].
    + apply (Rmult_le_reg_r (bx - ax)); [exact P|]. unfold Rdiv. rewrite Rmult_assoc, Rinv_l by lra. destruct C as [C|[C|[C|C]]]; lra.
  - assert (P : 0 < ax - bx) by lra.
    assert (E : (x - ax) / (bx - ax) = (ax - x) / (ax - bx)) by (field; split; lra). rewrite E. split.
    + apply Rmult_le_pos; [destruct C as [C|[C|[C|C]]]; lra|apply Rlt_le, Rinv_0_lt_compat; exact P].
    + apply (Rmult_le_reg_r (ax - bx)); [exact P|]. unfold Rdiv. rewrite Rmult_assoc, Rinv_l by lra. destruct C as [C|[C|[C|C]]]; lra.
Qed.

(* ---- without vertical edges the design condition tops EVERY polygon point at its abscissa *)
Lemma top_of_polygon cl xs r q : (forall s, In s (segments cl) -> nonvertical s) -> dc_rel cl xs r -> In q r ->
  forall y, on_polyline cl (fst q, y) -> y <= snd q.
Proof.
  intros NV H I y [s [Hs O]]. destruct (dc_rel_in cl xs r q H I) as [_ [_ [_ M]]]. apply M. exists s. auto.
Qed.

Lemma minl_in d l : In (Rminl d l) (d :: l).
Proof.
  revert d. induction l as [|a l IH]; intros d; cbn [minl fold_left]; [left; reflexivity|].
  fold (Rminl (Rfmin d a) l). destruct (IH (Rfmin d a)) as [E|H].
  - rewrite <- E. destruct (fmin_cases d a) as [[_ ->]|[_ ->]]; [left|right; left]; reflexivity.
  - right. right. exact H.
Qed.

(* every abscissa strictly inside the extent crosses the polygon: it is never omitted (in particular
   none of the default abscissae is, when the polygon has a positive width) *)
Lemma strictly_inside_crossing cl x : Rlmin (map fst cl) < x < Rlmax (map fst cl) -> exists y, crossing cl x y.
Proof.
  intros [H1 H2]. destruct (map fst cl) as [|a l] eqn:E; [unfold lmin, lmax, zero in *; lra|].
  apply inside_extent_crossing.
  - pose proof (minl_in a l) as I. change (Rminl a l) with (Rlmin (a :: l)) in I. rewrite <- E in I.
    apply in_map_iff in I. destruct I as [v [Ev Iv]]. exists v. split; [exact Iv|]. rewrite Ev. rewrite E. exact H1.
  - pose proof (maxl_in a l) as I. change (Rmaxl a l) with (Rlmax (a :: l)) in I. rewrite <- E in I.
    apply in_map_iff in I. destruct I as [v [Ev Iv]]. exists v. split; [exact Iv|]. rewrite Ev. rewrite E. exact H2.
Qed.

Lemma defaults_strictly_inside cl x n : Rlmin (map fst cl) < Rlmax (map fst cl) ->
  In x (Rsteps_of cl (StepsNum n)) -> Rlmin (map fst cl) < x < Rlmax (map fst cl).
Proof.
  intros W I. rewrite steps_num in I. destruct (default_limits cl) as [E1 E2]. cbv zeta in E1, E2.
  assert (L : Rdefault_lower cl <= Rdefault_upper cl) by (rewrite E1, E2; lra).
  pose proof (linspace_between _ _ n x L I). rewrite E1, E2 in H. lra.
Qed.

(* default / counted abscissae are all present in the result *)
Lemma defaults_all_present cl n :
  Rlmin (map snd cl) < Rlmax (map snd cl) \/ Rlmax (map snd cl) <> 0 -> Rlmin (map fst cl) < Rlmax (map fst cl) ->
  map fst (Rdc_closed cl (StepsNum n)) = Rsteps_of cl (StepsNum n).
Proof.
  intros Hy Hx. pose proof (design_conditions_rel cl (StepsNum n) Hy) as H.
  assert (A : forall x, In x (Rsteps_of cl (StepsNum n)) -> exists y, crossing cl x y).
  { intros x I. apply strictly_inside_crossing. apply (defaults_strictly_inside cl x n Hx I). }
  revert H A. generalize (Rsteps_of cl (StepsNum n)) (Rdc_closed cl (StepsNum n)). intros xs r H.
  induction H as [|x xs r Hn Hr IH|x xs y r Hc Hm Hr IH]; intros A; [reflexivity| |].
  - exfalso. apply Hn. apply A. left. reflexivity.
  - cbn [map fst]. f_equal. apply IH. intros x' I. apply A. right. exact I.
Qed.
